#!/bin/sh
# usage: tools_confirm_seed.sh <worktree> <seeded-id>
# Confirms a sub-agent's change in ITS scratch worktree (never /repo): the patch is exactly the worktree's diff and applies
# to the unmodified tree, the tree with the change builds, the existing suite passes, the demonstration exits 0 on the
# unmodified build and 1 on the changed build.  Then copies the deliverables to seeded/<id>/.
wt=$1; sid=$2
here=$(cd "$(dirname "$0")" && pwd)
out=$here/seeded/$sid
set -e
cd "$wt"
test -f seeded-out/patch.diff
demo=$(ls seeded-out/demo.* | head -1)
export CARGO_NET_OFFLINE=true CARGO_TARGET_DIR=$wt/target
# 1. patch == working-tree diff, and applies to a clean HEAD
git diff -- src > /tmp/confirm-$sid.diff
git stash -q
git apply --check seeded-out/patch.diff && echo "patch applies to unmodified tree: yes"
git stash pop -q
if ! git apply --check -R seeded-out/patch.diff 2>/dev/null; then echo "WARNING: worktree state differs from patch.diff"; fi
# 2. build + tests with the change
cargo build --offline --bin redo 2>&1 | tail -2
cargo test --workspace --no-fail-fast --offline > /tmp/confirm-$sid.test.log 2>&1 && echo "test suite with change: PASS" || { echo "test suite with change: FAIL"; tail -30 /tmp/confirm-$sid.test.log; exit 1; }
grep -E "^test result" /tmp/confirm-$sid.test.log
# 3. bin dirs
mk() { rm -rf "$2"; mkdir -p "$2"; cp "$1" "$2/redo"; for n in redo-always redo-ifchange redo-ifcreate redo-log redo-ood redo-sources redo-stamp redo-targets redo-unlocked redo-whichdo; do ln -s redo "$2/$n"; done; }
mk "$wt/target/debug/redo" /tmp/confirm-$sid-mut
mk "$here/target/sut/bin/redo" /tmp/confirm-$sid-orig
run() { case "$demo" in *.py) python3 "$demo" "$1";; *) sh "$demo" "$1";; esac; }
set +e
env -i PATH=/usr/bin:/bin HOME=/tmp sh -c "cd $wt && $(case $demo in *.py) echo python3;; *) echo sh;; esac) $demo /tmp/confirm-$sid-orig" > /tmp/confirm-$sid.orig.out 2>&1; ro=$?
env -i PATH=/usr/bin:/bin HOME=/tmp sh -c "cd $wt && $(case $demo in *.py) echo python3;; *) echo sh;; esac) $demo /tmp/confirm-$sid-mut" > /tmp/confirm-$sid.mut.out 2>&1; rm_=$?
echo "demo exit on unmodified build: $ro ; on changed build: $rm_"
tail -5 /tmp/confirm-$sid.mut.out
if [ "$ro" = 0 ] && [ "$rm_" = 1 ]; then
  mkdir -p "$out"
  cp seeded-out/patch.diff "$out/patch.diff"; cp "$demo" "$out/"; cp seeded-out/notes.md "$out/notes.md" 2>/dev/null
  tail -40 /tmp/confirm-$sid.test.log > "$out/test-suite-tail.log"
  echo "CONFIRMED -> $out"
else
  echo "NOT CONFIRMED"; exit 1
fi
rm -rf /tmp/confirm-$sid-mut /tmp/confirm-$sid-orig
