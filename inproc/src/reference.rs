//! Independent reference implementations written from the property statements.

/// Plan 9 `cleanname` on '/'-separated strings, as a component stack.
pub fn cleanname(p: &str) -> String {
    if p.is_empty() {
        return ".".to_string();
    }
    let rooted = p.starts_with('/');
    let mut stack: Vec<&str> = Vec::new();
    for c in p.split('/') {
        match c {
            "" | "." => {}
            ".." => {
                if let Some(top) = stack.last() {
                    if *top != ".." {
                        stack.pop();
                        continue;
                    }
                }
                if !rooted {
                    stack.push("..");
                }
                // rooted: "/.." is "/"
            }
            other => stack.push(other),
        }
    }
    let body = stack.join("/");
    if rooted {
        format!("/{}", body)
    } else if body.is_empty() {
        ".".to_string()
    } else {
        body
    }
}

/// C13 candidate order for the target `/<dirs...>/<name>`: (do_dir, do_file) pairs.
pub fn do_candidates(dirs: &[&str], name: &str) -> Vec<(String, String)> {
    let dirpath = |n: usize| -> String {
        if n == 0 {
            "/".to_string()
        } else {
            format!("/{}", dirs[..n].join("/"))
        }
    };
    let mut out = vec![(dirpath(dirs.len()), format!("{}.do", name))];
    let mut n = dirs.len();
    loop {
        // longest extension first: every '.' position from left to right
        for (i, ch) in name.char_indices() {
            if ch == '.' {
                out.push((dirpath(n), format!("default{}.do", &name[i..])));
            }
        }
        out.push((dirpath(n), "default.do".to_string()));
        if n == 0 {
            break;
        }
        n -= 1;
    }
    out
}

/// For names the statement is silent about: only the structural invariants.
pub fn weak_invariants(dirs: &[&str], name: &str, got: &[(String, String)]) -> Option<String> {
    if got.is_empty() {
        return Some("no candidates".into());
    }
    if got[0].1 != format!("{}.do", name) {
        return Some("first candidate is not <name>.do".into());
    }
    let last = got.last().unwrap();
    if last.0 != "/" || last.1 != "default.do" {
        return Some("last candidate is not /default.do".into());
    }
    // directories: deepest first, each exactly one contiguous block, names get shorter inside a block
    let mut seen_dirs: Vec<&str> = Vec::new();
    let mut prev_len = usize::MAX;
    for (d, f) in got.iter().skip(1) {
        if seen_dirs.last().map(|x| *x != d.as_str()).unwrap_or(true) {
            if seen_dirs.contains(&d.as_str()) {
                return Some("a directory appears in two separate blocks".into());
            }
            seen_dirs.push(d);
            prev_len = usize::MAX;
        }
        if !f.starts_with("default") || !f.ends_with(".do") {
            return Some("non-default candidate after the first".into());
        }
        if f.len() > prev_len {
            return Some("candidate names do not get shorter inside a directory".into());
        }
        prev_len = f.len();
    }
    if seen_dirs.len() != dirs.len() + 1 {
        return Some("not every directory up to / appears".into());
    }
    for w in seen_dirs.windows(2) {
        if w[0].len() <= w[1].len() && w[1] != "/" {
            return Some("directories not deepest first".into());
        }
    }
    None
}
