//! In-process property drivers for C13, C15 and C18 (public API of the `redo` library crate only).
//!
//! Usage: rv-inproc <c13|c15-exh|c15-rand|c15-rel|c18> <cases-or-len> <seed> [scratch-dir]
//! Prints one JSON object: {"evaluations":N,"nontrivial":N,"classes":{..},"samples":[..],"failures":[..]}

use proptest::prelude::*;
use proptest::test_runner::{Config, RngAlgorithm, TestCaseError, TestRng, TestRunner};
use std::cell::RefCell;
use std::collections::{BTreeMap, HashSet};
use std::io::Write;
use std::path::{Path, PathBuf};
use std::sync::{Arc, Mutex};

mod reference;

#[derive(Default)]
struct Stats {
    evaluations: u64,
    nontrivial: HashSet<String>,
    classes: BTreeMap<String, u64>,
    samples: Vec<String>,
    failures: Vec<(String, String)>,
    stop_counting: bool,
}

impl Stats {
    fn class(&mut self, k: &str) {
        if !self.stop_counting {
            *self.classes.entry(k.to_string()).or_insert(0) += 1;
        }
    }
    fn eval(&mut self) {
        if !self.stop_counting {
            self.evaluations += 1;
        }
    }
    fn nontrivial(&mut self, key: &str) {
        if !self.stop_counting {
            if self.nontrivial.len() < 2_000_000 {
                self.nontrivial.insert(key.to_string());
            }
            if self.samples.len() < 5 && self.evaluations % 97 == 3 {
                self.samples.push(key.to_string());
            }
        }
    }
}

fn jstr(s: &str) -> String {
    let mut o = String::from("\"");
    for c in s.chars() {
        match c {
            '"' => o.push_str("\\\""),
            '\\' => o.push_str("\\\\"),
            '\n' => o.push_str("\\n"),
            '\r' => o.push_str("\\r"),
            '\t' => o.push_str("\\t"),
            c if (c as u32) < 0x20 => o.push_str(&format!("\\u{:04x}", c as u32)),
            c => o.push(c),
        }
    }
    o.push('"');
    o
}

fn emit(st: &Stats, extra: &str) {
    let mut o = String::new();
    o.push_str(&format!(
        "{{\"evaluations\":{},\"nontrivial\":{},",
        st.evaluations,
        st.nontrivial.len()
    ));
    o.push_str("\"classes\":{");
    let mut first = true;
    for (k, v) in &st.classes {
        if !first {
            o.push(',');
        }
        first = false;
        o.push_str(&format!("{}:{}", jstr(k), v));
    }
    o.push_str("},\"samples\":[");
    let mut samples: Vec<String> = st.samples.clone();
    if samples.is_empty() {
        samples = st.nontrivial.iter().take(3).cloned().collect();
    }
    o.push_str(
        &samples
            .iter()
            .map(|s| jstr(&s.chars().take(300).collect::<String>()))
            .collect::<Vec<_>>()
            .join(","),
    );
    o.push_str("],\"failures\":[");
    o.push_str(
        &st.failures
            .iter()
            .map(|(i, d)| format!("{{\"input\":{},\"detail\":{}}}", jstr(i), jstr(d)))
            .collect::<Vec<_>>()
            .join(","),
    );
    o.push_str("]");
    o.push_str(extra);
    o.push_str("}");
    println!("{}", o);
}

fn runner(cases: u32, seed: u64) -> TestRunner {
    let mut bytes = [0u8; 32];
    for (i, b) in seed.to_le_bytes().iter().enumerate() {
        bytes[i] = *b;
        bytes[i + 8] = b.wrapping_mul(31).wrapping_add(7);
        bytes[i + 16] = b.wrapping_mul(17).wrapping_add(3);
        bytes[i + 24] = b.wrapping_mul(13).wrapping_add(1);
    }
    let cfg = Config {
        cases,
        failure_persistence: None,
        max_shrink_iters: 4000,
        ..Config::default()
    };
    TestRunner::new_with_rng(cfg, TestRng::from_seed(RngAlgorithm::ChaCha, &bytes))
}

// ---------------------------------------------------------------- C13

fn name_strategy() -> impl Strategy<Value = String> {
    // names with zero to many dots, leading dots, spaces, unicode; never empty, no '/', no NUL/newline
    let piece = prop_oneof![
        4 => "[a-z]{1,4}",
        1 => "[a-z ]{1,3}",
        1 => "[a-zäßλ日]{1,2}",
        1 => Just(String::new()),
    ];
    (proptest::collection::vec(piece, 1..5), any::<bool>()).prop_map(|(ps, lead)| {
        let mut s = ps.join(".");
        if lead {
            s.insert(0, '.');
        }
        if s.is_empty() || s == "." || s == ".." {
            s.push('x');
        }
        s
    })
}

fn dir_strategy() -> impl Strategy<Value = Vec<String>> {
    proptest::collection::vec(
        prop_oneof![3 => "[a-z]{1,3}", 1 => "[a-z]\\.[a-z]", 1 => "[a-z] [a-z]", 1 => "[日本ü]{1,2}"],
        0..6,
    )
}

fn regular_name(n: &str) -> bool {
    // the statement is silent about empty extension components ("a.", "a..b") and leading dots
    !n.starts_with('.') && !n.ends_with('.') && !n.contains("..")
}

fn c13(cases: u32, seed: u64) {
    let st = RefCell::new(Stats::default());
    let mut r = runner(cases, seed);
    let strat = (dir_strategy(), name_strategy(), proptest::collection::vec(0u8..4, 0..4));
    let res = r.run(&strat, |(dirs, name, noise)| {
        // spelled with redundant separators / dot components; possible_do_files normalises lexically
        let mut spelled = String::from("/");
        for (i, d) in dirs.iter().enumerate() {
            spelled.push_str(d);
            spelled.push('/');
            match noise.get(i).copied().unwrap_or(0) {
                1 => spelled.push_str("./"),
                2 => spelled.push('/'),
                3 => {
                    spelled.push_str("zz/../");
                }
                _ => {}
            }
        }
        spelled.push_str(&name);
        let clean_dirs: Vec<&str> = dirs.iter().map(|s| s.as_str()).collect();
        let got: Vec<(String, String)> = redo::possible_do_files(Path::new(&spelled))
            .map(|d| {
                (
                    d.do_dir().to_string_lossy().into_owned(),
                    d.do_file().to_string_lossy().into_owned(),
                )
            })
            .collect();
        let want = reference::do_candidates(&clean_dirs, &name);
        let mut s = st.borrow_mut();
        s.eval();
        let dots = name.matches('.').count();
        s.class(&format!("dots={}", dots.min(4)));
        s.class(&format!("depth={}", dirs.len()));
        if regular_name(&name) {
            s.class("regular-name:exact-comparison");
            if dots >= 2 || dirs.len() >= 2 {
                s.nontrivial(&spelled);
            }
            if got != want {
                return Err(TestCaseError::fail(format!(
                    "candidates differ for {:?}: got {:?} want {:?}",
                    spelled, got, want
                )));
            }
        } else {
            s.class("irregular-name:invariants-only");
            let problem = reference::weak_invariants(&clean_dirs, &name, &got);
            if let Some(p) = problem {
                return Err(TestCaseError::fail(format!("{} for {:?}: {:?}", p, spelled, got)));
            }
        }
        Ok(())
    });
    let mut s = st.into_inner();
    if let Err(e) = res {
        s.failures.push(("c13".into(), format!("{}", e)));
    }
    emit(&s, "");
}

// ---------------------------------------------------------------- C15

fn check_normpath(input: &str, scratch: Option<&Path>) -> Result<(), String> {
    let got = redo::normpath(Path::new(input)).to_string_lossy().into_owned();
    let want = reference::cleanname(input);
    if got != want {
        return Err(format!("normpath({:?}) = {:?}, reference {:?}", input, got, want));
    }
    let again = redo::normpath(Path::new(&got)).to_string_lossy().into_owned();
    if again != got {
        return Err(format!("not idempotent: {:?} -> {:?} -> {:?}", input, got, again));
    }
    if got.contains("//") && got != "/" {
        return Err(format!("output {:?} contains //", got));
    }
    if got != "." && got.split('/').any(|c| c == ".") {
        return Err(format!("output {:?} has a . component", got));
    }
    if input.starts_with('/') != got.starts_with('/') {
        return Err(format!("rootedness changed: {:?} -> {:?}", input, got));
    }
    {
        // no "x/.." left, where x is a real component
        let comps: Vec<&str> = got.split('/').collect();
        for w in comps.windows(2) {
            if w[1] == ".." && w[0] != ".." && !w[0].is_empty() {
                return Err(format!("output {:?} still has x/..", got));
            }
        }
    }
    if let Some(root) = scratch {
        // kernel as oracle: inside a tree without symlinks where every a/b directory chain exists,
        // a path that resolves must resolve to the same place after cleaning
        let rel = input.trim_start_matches('/');
        let p = root.join(rel);
        if let Ok(c1) = std::fs::canonicalize(&p) {
            let cleaned = redo::normpath(&p).into_owned();
            match std::fs::canonicalize(&cleaned) {
                Ok(c2) if c1 == c2 => {}
                other => {
                    return Err(format!(
                        "kernel disagrees: {:?} resolves to {:?}, cleaned {:?} resolves to {:?}",
                        p, c1, cleaned, other
                    ))
                }
            }
        }
    }
    Ok(())
}

fn make_ab_tree(root: &Path, depth: usize) {
    // every chain of directories named a / b up to `depth`
    fn rec(p: &Path, d: usize) {
        if d == 0 {
            return;
        }
        for n in &["a", "b"] {
            let q = p.join(n);
            let _ = std::fs::create_dir_all(&q);
            rec(&q, d - 1);
        }
    }
    let _ = std::fs::create_dir_all(root);
    rec(root, depth);
}

fn c15_exhaustive(maxlen: usize, alphabet: &str, scratch: &Path) {
    let mut st = Stats::default();
    let alpha: Vec<char> = alphabet.chars().collect();
    make_ab_tree(scratch, 5);
    let mut idx: Vec<usize> = Vec::new();
    // enumerate all strings of length 0..=maxlen in odometer order
    loop {
        let s: String = idx.iter().map(|&i| alpha[i]).collect();
        st.evaluations += 1;
        let interesting = s.contains("..") || s.contains("//") || s.contains("/./");
        if interesting {
            *st.classes.entry("has-dotdot-or-redundancy".into()).or_insert(0) += 1;
            if st.nontrivial.len() < 400_000 {
                st.nontrivial.insert(s.clone());
            } else {
                *st.classes.entry("nontrivial-not-stored(cap)".into()).or_insert(0) += 1;
            }
            if st.samples.len() < 5 && st.evaluations % 70_001 == 5 {
                st.samples.push(s.clone());
            }
        }
        let use_kernel = s.len() <= 9;
        if let Err(e) = check_normpath(&s, if use_kernel { Some(scratch) } else { None }) {
            if st.failures.len() < 5 {
                st.failures.push((s.clone(), e));
            }
        }
        // increment
        let mut k = idx.len();
        loop {
            if k == 0 {
                idx.insert(0, 0);
                for x in idx.iter_mut() {
                    *x = 0;
                }
                break;
            }
            k -= 1;
            if idx[k] + 1 < alpha.len() {
                idx[k] += 1;
                for x in idx.iter_mut().skip(k + 1) {
                    *x = 0;
                }
                break;
            }
        }
        if idx.len() > maxlen {
            break;
        }
    }
    let nt_total = st.classes.get("has-dotdot-or-redundancy").copied().unwrap_or(0);
    emit(&st, &format!(",\"exhaustive\":true,\"nontrivial_total\":{}", nt_total));
}

fn c15_random(cases: u32, seed: u64, scratch: &Path) {
    make_ab_tree(scratch, 5);
    let st = RefCell::new(Stats::default());
    let mut r = runner(cases, seed);
    let comp = prop_oneof![
        3 => Just("..".to_string()), 2 => Just(".".to_string()), 2 => Just(String::new()),
        2 => Just("a".to_string()), 2 => Just("b".to_string()),
        2 => "[a-z]{1,6}", 1 => "[a-z .]{1,4}", 1 => "[äλ日 ]{1,3}", 1 => Just("...".to_string()),
        1 => Just("..a".to_string()), 1 => Just("a..".to_string()),
    ];
    let strat = (any::<bool>(), proptest::collection::vec(comp, 0..14), any::<bool>());
    let res = r.run(&strat, |(rooted, comps, trail)| {
        let mut s = String::new();
        if rooted {
            s.push('/');
        }
        s.push_str(&comps.join("/"));
        if trail {
            s.push('/');
        }
        let mut stt = st.borrow_mut();
        stt.eval();
        if comps.iter().any(|c| c == "..") {
            stt.class("has-dotdot");
            stt.nontrivial(&s);
        }
        if s.len() > 9 {
            stt.class("longer-than-exhaustive-bound");
        }
        check_normpath(&s, Some(scratch)).map_err(TestCaseError::fail)
    });
    let mut s = st.into_inner();
    if let Err(e) = res {
        s.failures.push(("c15-rand".into(), format!("{}", e)));
    }
    emit(&s, "");
}

fn c15_relpath(cases: u32, seed: u64, scratch: &Path) {
    // tree: scratch/{a,b}/{a,b}/{a,b} real dirs, plus symlinked directories l -> a, a/l -> ../b, b/l -> /abs/a/b
    make_ab_tree(scratch, 3);
    let scratch = std::fs::canonicalize(scratch).unwrap();
    let _ = std::os::unix::fs::symlink("a", scratch.join("l"));
    let _ = std::os::unix::fs::symlink("../b", scratch.join("a").join("l"));
    let _ = std::os::unix::fs::symlink(scratch.join("a").join("b"), scratch.join("b").join("l"));
    let _ = std::fs::write(scratch.join("a").join("f"), b"x");
    let _ = std::os::unix::fs::symlink("f", scratch.join("a").join("fl")); // final-component symlink
    let st = RefCell::new(Stats::default());
    let mut r = runner(cases, seed);
    let comp = || {
        prop_oneof![4 => Just("a"), 4 => Just("b"), 2 => Just("l"), 2 => Just(".."), 1 => Just("."), 1 => Just("")]
    };
    let last = prop_oneof![3 => Just("f"), 2 => Just("fl"), 3 => Just("new.x")];
    let strat = (
        proptest::collection::vec(comp(), 0..6),
        last,
        proptest::collection::vec(comp(), 0..5),
        any::<bool>(),
    );
    std::env::set_current_dir(&scratch).expect("chdir to scratch");
    let res = r.run(&strat, |(tdirs, tlast, bdirs, use_rel)| {
        // keep both inside the scratch tree: drop a ".." that would climb above it (lexically)
        let clamp = |v: &Vec<&str>| -> Vec<String> {
            let mut depth = 0i32;
            let mut out = Vec::new();
            for c in v {
                if *c == ".." {
                    if depth <= 0 {
                        continue;
                    }
                    depth -= 1;
                } else if !c.is_empty() && *c != "." {
                    depth += 1;
                }
                out.push(c.to_string());
            }
            out
        };
        let td = clamp(&tdirs);
        let bd = clamp(&bdirs);
        let mut t = scratch.clone();
        for c in &td {
            t.push(c);
        }
        let tdir = t.clone();
        t.push(tlast);
        let mut base = scratch.clone();
        for c in &bd {
            base.push(c);
        }
        let mut stt = st.borrow_mut();
        stt.eval();
        // only directories that exist are meaningful bases / target directories
        let base_ok = std::fs::canonicalize(&base).map(|p| p.starts_with(&scratch)).unwrap_or(false);
        let tdir_ok = std::fs::canonicalize(&tdir).map(|p| p.starts_with(&scratch)).unwrap_or(false);
        if !base_ok || !tdir_ok {
            stt.class("skipped:dir-does-not-resolve-inside-tree");
            return Ok(());
        }
        // every real caller passes a directory obtained from getcwd() (or derived lexically from one) as the
        // base, i.e. its final component is never a symlink; symlinks in the middle of the base are allowed
        let last_real = bd.iter().rev().find(|c| !c.is_empty() && *c != ".").map(|s| s.as_str());
        let base = if last_real == Some("l") { std::fs::canonicalize(&base).unwrap() } else { base };
        // half of the cases name the target RELATIVE to the process' working directory (= the scratch root), as a
        // command-line argument would: relative inputs take their own branch inside relpath
        let t_given: PathBuf = if use_rel {
            let mut p = PathBuf::new();
            for c in &td {
                p.push(c);
            }
            p.push(tlast);
            p
        } else {
            t.clone()
        };
        if use_rel {
            stt.class("target-given-relative-to-cwd");
        }
        let rel = redo::relpath(&t_given, &base).map_err(|e| TestCaseError::fail(format!("relpath error {}", e)))?;
        let has_link = td.iter().chain(bd.iter()).any(|c| c == "l");
        stt.class(if has_link { "symlinked-dir-on-path" } else { "no-symlink" });
        if tlast == "fl" {
            stt.class("final-component-is-symlink");
        }
        stt.nontrivial(&format!("{:?} rel {:?}", t, base));
        // re-joining yields the original location: same directory (kernel), same final name, last not resolved
        let rejoined = std::fs::canonicalize(&base).unwrap().join(&rel);
        let rparent = rejoined.parent().unwrap_or(Path::new("/"));
        let want_parent = std::fs::canonicalize(&tdir).unwrap();
        let got_parent = std::fs::canonicalize(rparent)
            .map_err(|e| TestCaseError::fail(format!("rejoined parent {:?} does not resolve: {}", rparent, e)))?;
        // when the last component is itself a directory name like "a" or "l" it is still "the last component"
        if got_parent != want_parent || rejoined.file_name() != Path::new(tlast).file_name() {
            return Err(TestCaseError::fail(format!(
                "relpath({:?}, {:?}) = {:?}; rejoined {:?} is not {:?}/{}",
                t, base, rel, rejoined, want_parent, tlast
            )));
        }
        // the relative path is lexically clean
        let rs = rel.to_string_lossy().into_owned();
        if !rs.is_empty() && reference::cleanname(&rs) != rs {
            return Err(TestCaseError::fail(format!("relpath result {:?} is not clean", rs)));
        }
        // two spellings of the same file give the same relative name (one record, one lock)
        let canon_spelling = want_parent.join(tlast);
        let rel2 = redo::relpath(&canon_spelling, &base)
            .map_err(|e| TestCaseError::fail(format!("relpath error {}", e)))?;
        if rel2 != rel {
            return Err(TestCaseError::fail(format!(
                "two spellings of one file differ: {:?} -> {:?} but {:?} -> {:?} (base {:?})",
                t, rel, canon_spelling, rel2, base
            )));
        }
        Ok(())
    });
    let mut s = st.into_inner();
    if let Err(e) = res {
        s.failures.push(("c15-rel".into(), format!("{}", e)));
    }
    emit(&s, "");
}

// ---------------------------------------------------------------- C18

#[derive(Clone)]
struct Buf(Arc<Mutex<Vec<u8>>>);
impl Write for Buf {
    fn write(&mut self, b: &[u8]) -> std::io::Result<usize> {
        self.0.lock().unwrap().extend_from_slice(b);
        Ok(b.len())
    }
    fn flush(&mut self) -> std::io::Result<()> {
        Ok(())
    }
}
impl redo::logs::WriteWithMaybeFd for Buf {}

fn text_strategy() -> impl Strategy<Value = String> {
    let frag = prop_oneof![
        4 => "[ -~]{0,20}",
        2 => Just("@@".to_string()), 2 => Just("@@ ".to_string()), 2 => Just("@@REDO:".to_string()),
        1 => Just("@@REDO:do:1:1.0@@ x".to_string()), 1 => Just(":".to_string()), 1 => Just("  ".to_string()),
        1 => "[äλ日\\t\\r]{0,4}", 1 => "[a-z]{200,400}",
    ];
    proptest::collection::vec(frag, 0..8).prop_map(|v| v.concat().replace('\n', " "))
}

fn c18(cases: u32, seed: u64) {
    let buf = Buf(Arc::new(Mutex::new(Vec::new())));
    redo::logs::LogBuilder::default().setup(buf.clone());
    let st = RefCell::new(Stats::default());
    let mut r = runner(cases, seed);
    let strat = ("[a-z]{1,10}", 0i32..i32::MAX, text_strategy(), -300i32..300, "[ -~äλ]{0,30}", any::<bool>());
    let res = r.run(&strat, |(kind, pid, text, rv, tname, big)| {
        let text = if big { text.repeat(40) } else { text };
        let mut stt = st.borrow_mut();
        stt.eval();
        if text.contains("@@") || text.contains(':') || text.starts_with(' ') || text.ends_with(' ') {
            stt.class("text-resembles-structure-or-has-edge-spaces");
            stt.nontrivial(&format!("{}|{}|{}", kind, pid, text.chars().take(80).collect::<String>()));
        }
        if text.len() > 4096 {
            stt.class("text>4KiB");
        }
        // (1) real formatter -> parser
        buf.0.lock().unwrap().clear();
        let t0 = std::time::SystemTime::now()
            .duration_since(std::time::UNIX_EPOCH)
            .unwrap()
            .as_secs_f64();
        redo::logs::meta(&kind, &text, Some(nix::unistd::Pid::from_raw(pid)));
        let t1 = std::time::SystemTime::now()
            .duration_since(std::time::UNIX_EPOCH)
            .unwrap()
            .as_secs_f64();
        let line = String::from_utf8(buf.0.lock().unwrap().clone())
            .map_err(|_| TestCaseError::fail("formatter wrote invalid UTF-8"))?;
        if !line.ends_with('\n') || line.matches('\n').count() != 1 {
            return Err(TestCaseError::fail(format!("not exactly one line: {:?}", line)));
        }
        let body = &line[..line.len() - 1];
        let m = redo::logs::Meta::parse(body)
            .map_err(|e| TestCaseError::fail(format!("formatter output does not parse: {} ({:?})", e, body)))?;
        if m.kind() != kind || m.pid().as_raw() != pid || m.text() != text {
            return Err(TestCaseError::fail(format!(
                "round trip changed the record: in ({:?},{},{:?}) out ({:?},{},{:?})",
                kind, pid, text, m.kind(), m.pid(), m.text()
            )));
        }
        if !(m.timestamp() >= t0 - 0.00011 && m.timestamp() <= t1 + 0.00011) {
            return Err(TestCaseError::fail(format!("timestamp {} outside [{}, {}]", m.timestamp(), t0, t1)));
        }
        // (2) fixed point parse(format(parse(s))) == parse(s)
        let again = format!("{}", m);
        let m2 = redo::logs::Meta::parse(&again)
            .map_err(|e| TestCaseError::fail(format!("re-formatted record does not parse: {}", e)))?;
        if m2.kind() != m.kind() || m2.pid() != m.pid() || m2.text() != m.text()
            || (m2.timestamp() - m.timestamp()).abs() > 1e-4
        {
            return Err(TestCaseError::fail(format!("not a fixed point: {:?} vs {:?}", m, m2)));
        }
        // (3) done records
        if !tname.contains('\n') {
            buf.0.lock().unwrap().clear();
            redo::logs::meta("done", &format!("{} {}", rv, tname), Some(nix::unistd::Pid::from_raw(pid)));
            let line = String::from_utf8(buf.0.lock().unwrap().clone()).unwrap();
            let m = redo::logs::Meta::parse(&line[..line.len() - 1])
                .map_err(|e| TestCaseError::fail(format!("done record does not parse: {}", e)))?;
            match m.done_text() {
                Some((rv2, n2)) if rv2 == rv && n2 == tname => {}
                other => {
                    return Err(TestCaseError::fail(format!(
                        "done_text of ({}, {:?}) gave {:?}",
                        rv, tname, other
                    )))
                }
            }
            stt.class("done-record");
        }
        Ok(())
    });
    let mut s = st.into_inner();
    if let Err(e) = res {
        s.failures.push(("c18".into(), format!("{}", e)));
    }
    emit(&s, "");
}

fn main() {
    let args: Vec<String> = std::env::args().collect();
    if args.len() < 4 {
        eprintln!("usage: rv-inproc <c13|c15-exh|c15-rand|c15-rel|c18> <n> <seed> [scratch|alphabet]");
        std::process::exit(2);
    }
    let n: u64 = args[2].parse().unwrap();
    let seed: u64 = args[3].parse().unwrap();
    let scratch = PathBuf::from(args.get(4).cloned().unwrap_or_else(|| "/dev/shm/rv-inproc".into()));
    std::panic::set_hook(Box::new(|_| {}));
    match args[1].as_str() {
        "c13" => c13(n as u32, seed),
        "c15-exh" => {
            let alphabet = args.get(5).cloned().unwrap_or_else(|| "/.ab".into());
            c15_exhaustive(n as usize, &alphabet, &scratch)
        }
        "c15-rand" => c15_random(n as u32, seed, &scratch),
        "c15-rel" => c15_relpath(n as u32, seed, &scratch),
        "c18" => c18(n as u32, seed),
        _ => std::process::exit(2),
    }
    let _ = std::io::stdout().flush();
}
