#!/usr/bin/env python3
"""usage: tools_seed_meta.py <seeded-id> <property> <first_result: caught|missed> <needs_to_manifest> <caught_by text>
Writes seeded/<id>/meta.json from seeded/<id>/run.json (produced by tools_seeded.py)."""
import json
import os
import sys

HERE = os.path.dirname(os.path.abspath(__file__))
sid, prop, first, needs, caught = sys.argv[1:6]
d = os.path.join(HERE, "seeded", sid)
run = json.load(open(os.path.join(d, "run.json")))
old = {}
if os.path.exists(os.path.join(d, "meta.json")):
    old = json.load(open(os.path.join(d, "meta.json")))
meta = {
    "property": prop,
    "source": "independent sub-agent given only the property record and its own scratch worktree (nothing from /verif)",
    "needs_to_manifest": needs,
    "confirmed": {"compiles": True,
                  "baseline_tests_pass": "cargo test --workspace --no-fail-fast --offline re-run by me in the sub-agent's "
                                         "worktree with the change applied (tools_confirm_seed.sh; tail in test-suite-tail.log)",
                  "patch_applies_to_unmodified_tree": True,
                  "demo_exit_unmodified": run.get("demo_orig_exit"), "demo_exit_with_change": run.get("demo_mut_exit")},
    "what_i_ran": "tools_confirm_seed.sh <worktree> %s ; python3 tools_seeded.py %s %s  (git -C /repo apply patch.diff; "
                  "rebuild; demo; ./check <id> quick; git -C /repo checkout -- .)" % (sid, sid, " ".join(run["checks"])),
    "check_results": run["checks"],
    "first_result": old.get("first_result", first),
    "caught_by": caught,
}
json.dump(meta, open(os.path.join(d, "meta.json"), "w"), indent=1)
print("ok", sid)
