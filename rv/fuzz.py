"""Coverage-guided tier (libFuzzer via cargo-fuzz, nightly toolchain): targets in fuzz/fuzz_targets with the oracle
inside the target. A campaign is pinned approximately by -seed/-runs and a fresh corpus (seeds/ only); the saved
crashing input is the reproducible unit."""
import hashlib
import json
import os
import re
import shutil
import subprocess

from . import sut

VERIF = sut.VERIF
FDIR = os.path.join(VERIF, "fuzz")
TDIR = os.path.join(VERIF, "target", "fuzz")
BIN = os.path.join(TDIR, "x86_64-unknown-linux-gnu", "release")


def build():
    env = sut.cargo_env()
    env["CARGO_TARGET_DIR"] = TDIR
    try:
        p = subprocess.run(["cargo", "+nightly", "fuzz", "build", "--fuzz-dir", FDIR], env=env, cwd=FDIR,
                           stdout=subprocess.PIPE, stderr=subprocess.STDOUT, text=True, timeout=1800)
    except (OSError, subprocess.TimeoutExpired) as e:
        return False, repr(e)
    if p.returncode != 0:
        return False, p.stdout[-1500:]
    return True, ""


def run(target, runs, seed, max_len=256, timeout=3600):
    """-> {"executions", "new_units", "crash": None | {"input_hex", "detail"}}"""
    corpus = "/dev/shm/rv-fuzz-%d-%s" % (os.getpid(), target)
    art = corpus + "-art/"
    shutil.rmtree(corpus, ignore_errors=True)
    shutil.rmtree(art, ignore_errors=True)
    os.makedirs(corpus)
    os.makedirs(art)
    sd = os.path.join(FDIR, "seeds", target)
    if os.path.isdir(sd):
        for f in os.listdir(sd):
            shutil.copy(os.path.join(sd, f), os.path.join(corpus, "seed-" + f))
    try:
        p = subprocess.run([os.path.join(BIN, target), corpus, "-runs=%d" % runs, "-seed=%d" % (seed + 1),
                            "-len_control=0", "-max_len=%d" % max_len, "-print_final_stats=1",
                            "-artifact_prefix=" + art], stdout=subprocess.PIPE, stderr=subprocess.STDOUT,
                           timeout=timeout, env={"PATH": "/usr/bin:/bin", "RUST_BACKTRACE": "0"})
        text = p.stdout.decode("utf-8", "replace")
        m1 = re.search(r"stat::number_of_executed_units:\s*(\d+)", text)
        m2 = re.search(r"stat::new_units_added:\s*(\d+)", text)
        res = {"executions": int(m1.group(1)) if m1 else 0, "new_units": int(m2.group(1)) if m2 else 0,
               "crash": None, "rc": p.returncode}
        arts = sorted(os.listdir(art))
        if p.returncode != 0 or arts:
            data = b""
            if arts:
                with open(os.path.join(art, arts[0]), "rb") as f:
                    data = f.read()
            mm = re.search(r"panicked at [^\n]*\n(?:[^\n]*\n){0,4}", text)
            res["crash"] = {"input_hex": data.hex(), "input_repr": repr(data[:200]),
                            "detail": ((mm.group(0) + " ... ") if mm else "") + text[-500:]}
        return res
    finally:
        shutil.rmtree(corpus, ignore_errors=True)
        shutil.rmtree(art, ignore_errors=True)


def replay(target, input_hex):
    """Run the target once on a saved input. -> (violated, text)"""
    path = "/dev/shm/rv-fuzz-replay-%d" % os.getpid()
    with open(path, "wb") as f:
        f.write(bytes.fromhex(input_hex))
    try:
        p = subprocess.run([os.path.join(BIN, target), path], stdout=subprocess.PIPE, stderr=subprocess.STDOUT,
                           timeout=120, env={"PATH": "/usr/bin:/bin", "RUST_BACKTRACE": "0"})
        return p.returncode != 0, p.stdout.decode("utf-8", "replace")[-1500:]
    finally:
        os.unlink(path)


def campaign(prop, targets, tier, seed, cov, violations_out):
    """Run the named targets; fold the numbers into the evidence coverage dict; returns exit-code contribution."""
    from . import engine
    ok, msg = build()
    if not ok:
        cov["fuzz"] = {"disabled": "cargo +nightly fuzz build failed (coverage-guided tier skipped): " + msg[-300:]}
        return 0
    code = 0
    cov["fuzz"] = {"rule": "libFuzzer, oracle inside the target; non-trivial = inputs that reached new coverage "
                           "(new_units_added); fresh corpus from fuzz/seeds per run"}
    for t, (runs_q, runs_t, max_len) in targets.items():
        r = run(t, runs_q if tier == "quick" else runs_t, seed, max_len)
        cov["fuzz"][t] = {"executions": r["executions"], "new_units": r["new_units"], "max_len": max_len}
        cov["evaluations"] += r["executions"]
        cov["distinct_nontrivial"] += r["new_units"]
        if r["crash"]:
            case = {"fuzz": t, "input_hex": r["crash"]["input_hex"]}
            v = {"property": prop, "clause": "fuzz-target-" + t, "detail": r["crash"]["detail"],
                 "sig": {"symptom": "fuzz-oracle", "target": t}}
            path = engine.write_replay(prop, case, v, prefix="fail-fuzz")
            print("VIOLATION property=%s replay=%s" % (prop, path))
            print("  fuzz target %s: %s" % (t, r["crash"]["detail"][-400:].replace("\n", " | ")))
            violations_out.append(path)
            code = 1
    return code
