"""Engine S: harness-owned schedules.

Generated .do scripts announce S/W/E/X events on a FIFO and block at `work` gates until the harness releases
them; the harness decides the order and *coincidence* of completions (SIGSTOP the owning redo process, let
several scripts finish and/or put token bytes into the jobserver pipe, SIGCONT), the start times of several
top-level invocations, and can play the parent jobserver.
"""
import collections
import errno
import fcntl
import os
import select
import shutil
import signal
import subprocess
import termios
import time

from . import hist, runner
from . import project as P

BLOCKING = {"270", "270t", "61", "0", "257", "72", "7", "271", "230", "35", "23", "232", "281", "202", "247"}
# pselect6 wait4 read openat fcntl poll ppoll clock_nanosleep nanosleep select epoll_wait epoll_pwait futex waitid


def fionread(fd):
    import array
    buf = array.array("i", [0])
    fcntl.ioctl(fd, termios.FIONREAD, buf, True)
    return buf[0]


def proc_state(pid):
    """(state letter, syscall number or None, ppid, cmd)"""
    try:
        with open("/proc/%d/stat" % pid) as f:
            s = f.read()
        rp = s.rindex(")")
        cmd = s[s.index("(") + 1:rp]
        fields = s[rp + 2:].split()
        state, ppid = fields[0], int(fields[1])
    except (OSError, ValueError):
        return None, None, None, None
    sc = None
    try:
        with open("/proc/%d/syscall" % pid) as f:
            parts = f.read().split(" ")
        sc = parts[0].strip()
        if sc == "270" and len(parts) > 5 and parts[5] not in ("0x0", "0"):
            sc = "270t"   # pselect6 with a timeout: the process will wake up by itself
    except OSError:
        pass
    return state, sc, ppid, cmd


class Inv:
    def __init__(self, idx, spec):
        self.idx = idx
        self.spec = spec
        self.proc = None
        self.rc = None
        self.out_path = None
        self.err_path = None
        self.started_at = None
        self.ended_at = None
        self.signalled = None

    def alive(self):
        return self.proc is not None and self.rc is None


class Gate:
    def __init__(self, target, gid, pid, ppid):
        self.target = target
        self.gid = gid
        self.pid = pid
        self.ppid = ppid
        self.released = False


class JobPipe:
    """Harness as parent jobserver: token pipe + cheat pipe at chosen fd numbers."""

    def __init__(self, tokens, high, held=0):
        self.held = held   # tokens the harness (as the parent make) currently uses for other jobs
        r, w = os.pipe()
        cr, cw = os.pipe()
        base = 200 if high else None
        self.fds = []
        if base:
            # move to high numbers so that select()'s result order in redo puts the token fd after the job pipes
            for i, fd in enumerate((r, w, cr, cw)):
                os.dup2(fd, base + i, inheritable=True)
                os.close(fd)
            r, w, cr, cw = base, base + 1, base + 2, base + 3
        else:
            for fd in (r, w, cr, cw):
                os.set_inheritable(fd, True)
        self.r, self.w, self.cr, self.cw = r, w, cr, cw
        for fd in (r, cr):
            fl = fcntl.fcntl(fd, fcntl.F_GETFL)
            # leave blocking mode alone for the children (redo sets what it needs); harness uses FIONREAD only
        self.put_total = 0
        self.taken_total = 0
        if tokens:
            self.put(tokens)

    def put(self, n):
        os.write(self.w, b"t" * n)
        self.put_total += n

    def steal(self, n):
        """Take up to n tokens out of the pipe (what a sibling make job would do). Returns how many."""
        got = 0
        avail = fionread(self.r)
        k = min(n, avail)
        if k > 0:
            got = len(os.read(self.r, k))
        self.taken_total += got
        self.held += got
        return got

    def give(self, n=1):
        """Put back tokens the harness holds (a sibling job finished). Returns how many."""
        k = min(n, self.held)
        if k > 0:
            os.write(self.w, b"t" * k)
            self.held -= k
        return k

    def expected_total(self, initial):
        """Tokens that must be in the pipe (net of cheats) once every redo process is gone."""
        return initial["tokens"] + initial.get("held", 0) - self.held

    def available(self):
        return fionread(self.r)

    def cheats(self):
        return fionread(self.cr)

    def env(self):
        return {"MAKEFLAGS": " -j --jobserver-auth=%d,%d --jobserver-fds=%d,%d" % (self.r, self.w, self.r, self.w),
                "REDO_CHEATFDS": "%d,%d" % (self.cr, self.cw)}

    def pass_fds(self):
        return (self.r, self.w, self.cr, self.cw)

    def close(self):
        for fd in (self.r, self.w, self.cr, self.cw):
            try:
                os.close(fd)
            except OSError:
                pass


class Timeline:
    def __init__(self):
        self.ev = []       # (seq, kind, target, pid, extra)
        self.running = {}  # pid -> target for scripts between S and X
        self.inwork = {}   # pid -> target for scripts between W and E
        self.max_inwork = 0
        self.max_running = 0
        self.starts = collections.Counter()
        self.overlaps = []
        self.script_rc = {}   # (target, pid) -> rc
        self.owner = {}       # script pid -> redo pid
        self.decisions = []
        self.doomed = set()   # pids that were members of a process group at the moment the harness signalled it

    def add(self, kind, target, pid, extra):
        self.ev.append((len(self.ev), kind, target, pid, extra))
        if kind == "S":
            for p2, t2 in list(self.running.items()):
                if t2 == target and p2 != pid:
                    # sound only if the older execution is still alive *now* (then it was alive when the new one
                    # started); a script that was killed leaves no X record
                    st_, _, _, _ = proc_state(p2)
                    if st_ is None or st_ == "Z" or p2 in self.doomed:
                        # (a group signal reaches every member at once: a script that got it is finished even if
                        # the kernel needs another millisecond to tear it down after its redo parent)
                        self.running.pop(p2, None)
                        self.inwork.pop(p2, None)
                        continue
                    self.overlaps.append((target, p2, pid))
            self.running[pid] = target
            self.starts[target] += 1
            self.owner[pid] = extra
            self.max_running = max(self.max_running, len(self.running))
        elif kind == "W":
            self.inwork[pid] = target
            self.max_inwork = max(self.max_inwork, len(self.inwork))
        elif kind == "E":
            self.inwork.pop(pid, None)
        elif kind == "X":
            self.running.pop(pid, None)
            self.inwork.pop(pid, None)
            self.script_rc[(target, pid)] = extra

    def reap(self, alive_pids):
        """Scripts that died without an X record (killed) no longer run."""
        for p in list(self.running):
            if p not in alive_pids:
                self.running.pop(p, None)
                self.inwork.pop(p, None)


class SchedRunner:
    """Runs one scheduled scenario. `case`:
       project: as engine H (bodies may contain ["work", k]);
       invs: [{"argv": [...], "cwd": "", "env": {...}, "jobserver": None|{"tokens":K,"high":bool}}]
       schedule: [int,...] decisions; sopts: {"coincide": bool, "token_games": bool}
    """
    DEADLINE = 60.0

    def __init__(self, case, tag="s"):
        self.case = case
        self.disk = P.Disk(hist.scratch_dir(tag))
        self.disk.materialize(case["project"])
        self.evpath = os.path.join(self.disk.ctl, "events")
        os.mkfifo(self.evpath)
        self.evfd = os.open(self.evpath, os.O_RDWR | os.O_NONBLOCK)
        self.evbuf = b""
        self.tl = Timeline()
        self.invs = [Inv(i, s) for i, s in enumerate(case["invs"])]
        self.gates = []
        self.jp = None
        self.sched = list(case.get("schedule", []))
        self.si = 0
        self.sopts = case.get("sopts", {})
        import random
        self.rng = random.Random(int(self.sopts["seed"])) if self.sopts.get("seed") else None
        self.coincidences = 0
        self.handovers = 0
        self.notes = []
        self.hang = None
        self.orphans = []
        self.orphans_seen = set()
        self.token_log = []
        js = [i.spec.get("jobserver") for i in self.invs if i.spec.get("jobserver")]
        if js:
            self.jp = JobPipe(js[0]["tokens"], js[0].get("high", True), js[0].get("held", 0))
            self.js_spec = js[0]

    # ---------- low level ----------
    def close(self):
        for inv in self.invs:
            if inv.proc is not None:
                runner.kill_session(inv.proc.pid)
                try:
                    inv.proc.wait(timeout=5)
                except Exception:
                    pass
        # scripts orphaned into other sessions cannot exist (setsid only at top level); gates: kill by pid
        for g in self.gates:
            try:
                os.kill(g.pid, signal.SIGKILL)
            except OSError:
                pass
        try:
            os.close(self.evfd)
        except OSError:
            pass
        if self.jp:
            self.jp.close()
        shutil.rmtree(self.disk.base, ignore_errors=True)

    def decide(self, n):
        """Next decision mapped monotonically onto range(n) (shrinks towards 0 = first ready item)."""
        if n <= 1:
            return 0
        if self.si < len(self.sched):
            d = self.sched[self.si]
        elif self.rng is not None:
            # beyond the explicit prefix the decisions come from a PRNG seeded by the case itself (sopts.seed), so a
            # short generated schedule does not degenerate into "always the first ready item"; seed 0 = old behaviour
            d = self.rng.randrange(65536)
        else:
            d = 0
        self.si += 1
        return (d * n) >> 16 if d < 65536 else d % n

    def start_inv(self, inv):
        spec = inv.spec
        env = runner.base_env(self.disk, {"RV_EVENTS": "1"})
        env.update(spec.get("env", {}))
        pass_fds = ()
        if spec.get("jobserver") and self.jp:
            env.update(self.jp.env())
            pass_fds = self.jp.pass_fds()
        inv.out_path = os.path.join(self.disk.ctl, "out.%d" % inv.idx)
        inv.err_path = os.path.join(self.disk.ctl, "err.%d" % inv.idx)
        fo = open(inv.out_path, "wb")
        fe = open(inv.err_path, "wb")
        inv.proc = subprocess.Popen(spec["argv"], cwd=self.disk.abspath(spec.get("cwd", "")), env=env,
                                    stdin=subprocess.DEVNULL, stdout=fo, stderr=fe, start_new_session=True,
                                    pass_fds=pass_fds, close_fds=True)
        fo.close()
        fe.close()
        inv.started_at = time.time()
        self.tl.decisions.append(("start", inv.idx))

    def pump(self):
        """Read all pending events."""
        got = False
        while True:
            try:
                b = os.read(self.evfd, 65536)
            except OSError as e:
                if e.errno in (errno.EAGAIN, errno.EWOULDBLOCK):
                    break
                raise
            if not b:
                break
            self.evbuf += b
            got = True
        while b"\n" in self.evbuf:
            line, self.evbuf = self.evbuf.split(b"\n", 1)
            f = line.decode("utf-8", "replace").split("|")
            if len(f) < 3:
                continue
            kind, target = f[0], f[1]
            if kind == "S":
                self.tl.add("S", target, int(f[2]), int(f[3]))
            elif kind == "W":
                pid = int(f[3])
                self.tl.add("W", target, pid, f[2])
                self.gates.append(Gate(target, f[2], pid, self.tl.owner.get(pid)))
            elif kind == "E":
                self.tl.add("E", target, int(f[3]), f[2])
            elif kind == "X":
                self.tl.add("X", target, int(f[3]), int(f[2]))
        return got

    def reap(self):
        for inv in self.invs:
            if inv.alive():
                rc = inv.proc.poll()
                if rc is not None:
                    inv.rc = rc
                    inv.ended_at = time.time()

    def live_pids(self):
        out = []
        for inv in self.invs:
            if inv.proc is not None:
                out += runner.session_pids(inv.proc.pid)
        return out

    def quiescent(self, timeout=None):
        """Wait until no events arrive and every live process sits in a blocking syscall, twice 2 ms apart.
        redo-log followers poll; they are ignored. Returns False on timeout (not an error: decisions proceed)."""
        strict = bool(self.sopts.get("patient"))
        if timeout is None:
            timeout = 1.6 if strict else 3.0
        t_end = time.time() + timeout
        stable = 0
        while time.time() < t_end:
            if self.pump():
                stable = 0
                continue
            self.reap()
            ok = True
            for p in self.live_pids():
                state, sc, ppid, cmd = proc_state(p)
                if state is None or state == "Z":
                    continue
                if cmd == "redo-log":
                    continue
                if state in ("R", "D") or (sc is not None and sc not in BLOCKING and sc != "running"):
                    ok = False
                    break
                if state == "T":
                    continue
                if strict and sc in ("270t", "230", "35"):
                    ok = False   # sleeping on a timer (back-off): let it fire before deciding
                    break
                if sc == "running":
                    ok = False
                    break
            if ok:
                stable += 1
                if stable >= 2:
                    return True
            else:
                stable = 0
            time.sleep(0.002)
        return False

    def release_gate(self, g):
        g.released = True
        path = os.path.join(self.disk.ctl, "go.%d.%s" % (g.pid, g.gid))
        try:
            fd = os.open(path, os.O_WRONLY | os.O_NONBLOCK)
        except OSError as e:
            if e.errno == errno.ENXIO:
                # reader not there yet (between mkfifo/event and open): wait briefly
                for _ in range(500):
                    time.sleep(0.001)
                    try:
                        fd = os.open(path, os.O_WRONLY | os.O_NONBLOCK)
                        break
                    except OSError:
                        fd = None
                if fd is None:
                    return
            else:
                return
        try:
            os.write(fd, b"\n")
        except OSError:
            pass
        os.close(fd)
        self.tl.decisions.append(("release", g.target, g.gid))

    def wait_script_gone(self, pid, timeout=5.0):
        t_end = time.time() + timeout
        while time.time() < t_end:
            self.pump()
            state, sc, ppid, cmd = proc_state(pid)
            if state is None or state == "Z":
                return True
            time.sleep(0.001)
        return False

    def pending_gates(self):
        alive = []
        for g in self.gates:
            if g.released:
                continue
            state, _, _, _ = proc_state(g.pid)
            if state is None or state == "Z":
                g.released = True
                continue
            alive.append(g)
            # a script that sits at a gate is certainly still running; the redo process that started it must be too
            if g.ppid and (g.target, g.ppid) not in self.orphans_seen:
                ost, _, _, _ = proc_state(g.ppid)
                if ost is None or ost == "Z":
                    self.orphans_seen.add((g.target, g.ppid))
                    self.orphans.append({"target": g.target, "gate": g.gid, "script_pid": g.pid, "redo_pid": g.ppid})
        return alive

    # ---------- main loop ----------
    def run(self):
        t0 = time.time()
        unstarted = list(self.invs)
        # the first invocation always starts first
        self.start_inv(unstarted.pop(0))
        if self.sopts.get("start_first"):
            # let every invocation run into the gates (and each other's locks) before anything is released
            while unstarted:
                self.quiescent()
                self.start_inv(unstarted.pop(0))
        while True:
            if time.time() - t0 > self.DEADLINE:
                self.on_deadline()
                break
            self.quiescent()
            self.reap()
            gates = self.pending_gates()
            alive = [i for i in self.invs if i.alive()]
            if not gates and not unstarted:
                if not alive:
                    break
                # nothing for the harness to do: processes must finish on their own -- but tokens the harness still
                # holds (taken for "sibling jobs of the parent make") come back first: those jobs end eventually,
                # and a redo that waits for a token nobody will ever return is not redo's fault
                if self.jp and self.jp.held > 0:
                    n = self.jp.give(self.jp.held)
                    self.token_log.append(("give-all-at-end", n))
                    self.tl.decisions.append(("token", ("give-all-at-end", n)))
                    continue
                if not self.wait_progress(alive):
                    break
                continue
            items = [("gate", g) for g in gates] + [("start", i) for i in unstarted[:1]]
            if self.jp and self.sopts.get("token_games"):
                items.append(("token", None))
                if self.sopts.get("smart_tokens") and (self.jp.available() > 0 or self.jp.held > 0):
                    # directed families: token moves are as likely as all gate releases together
                    items += [("token", None)] * max(0, len(gates) - 1)
            # choose what happens next
            kind, obj = items[self.decide(len(items))]
            if kind == "start":
                unstarted.remove(obj)
                self.start_inv(obj)
            elif kind == "token":
                self.token_game()
            else:
                self.gate_step(obj, gates)
        self.pump()
        self.reap()
        self.tl.reap(set(self.live_pids()))
        return self

    def token_game(self):
        k = self.decide(2)
        if self.sopts.get("smart_tokens"):
            # prefer the action that can have an effect: steal what is in the pipe, else return what we hold
            can_steal = self.jp.available() > 0
            can_give = self.jp.held > 0
            # the moment a sibling job of the parent make would grab the token: redo has parked it in the pipe and
            # blocks in F_SETLKW waiting for a target lock
            if can_steal and any(proc_state(p_)[1] == "72" for p_ in self.live_pids()):
                k = 1
            if k == 1 and not can_steal and can_give:
                k = 0
            elif k == 0 and not can_give and can_steal:
                k = 1
        if k == 0:
            n = self.jp.give(1)
            self.token_log.append(("give", n))
        else:
            n = self.jp.steal(1)
            self.token_log.append(("steal", n))
        self.tl.decisions.append(("token", self.token_log[-1]))

    def gate_step(self, g, gates):
        """Release g; with coincidence enabled possibly together with siblings owned by the same redo process
        and/or a token byte, all delivered while that process is stopped."""
        owner = g.ppid
        sibs = [x for x in gates if x is not g and x.ppid == owner]
        co = False
        if self.sopts.get("coincide") and owner:
            co = self.decide(2) == 1
        if not co:
            self.release_gate(g)
            return
        chosen = [g]
        for x in sibs:
            if self.decide(2) == 1:
                chosen.append(x)
        add_token = bool(self.jp) and self.decide(2) == 1
        state, sc, _, cmd = proc_state(owner)
        if state is None or state == "Z":
            for x in chosen:
                self.release_gate(x)
            return
        try:
            os.kill(owner, signal.SIGSTOP)
        except OSError:
            owner = None
        for x in chosen:
            self.release_gate(x)
        for x in chosen:
            self.wait_script_gone(x.pid)
        if add_token and self.jp:
            # a token we hold back (stolen earlier) or a fresh one from a sibling job finishing: return it now
            n = self.jp.give(1)
            self.token_log.append(("give-coinc", n))
        self.coincidences += 1
        self.tl.decisions.append(("coincide", [x.target for x in chosen], add_token))
        if owner:
            try:
                os.kill(owner, signal.SIGCONT)
            except OSError:
                pass

    def wait_progress(self, alive):
        """Processes are alive but the harness has nothing to release. Wait for events/exits; a process tree that
        makes no progress at all is a hang (proved by zero CPU over two windows). Returns False to stop."""
        t_end = time.time() + float(self.sopts.get("silence_s", 10.0))
        while time.time() < t_end:
            if self.pump():
                return True
            self.reap()
            if any(not i.alive() for i in alive):
                return True
            if self.pending_gates():
                return True
            time.sleep(0.005)
        # 10 s of silence: try to prove a hang
        proofs = []
        for inv in alive:
            pr = runner.no_progress_proof(inv.proc.pid, windows=2, window_s=3.0)
            if pr is None:
                return True   # something moved; keep waiting (deadline bounds us)
            proofs.append(pr)
        self.hang = {"proof": proofs}
        return False

    def on_deadline(self):
        self.notes.append("deadline")
        self.deadline_hit = True

    def inv_text(self, inv):
        t = b""
        for pth in (inv.out_path, inv.err_path):
            try:
                with open(pth, "rb") as f:
                    t += f.read()
            except (OSError, TypeError):
                pass
        return t.decode("utf-8", "replace")
