"""Generic driver: N worker processes, each a seeded Hypothesis run over a case strategy; evidence merging;
known-findings matching; replay files."""
import collections
import hashlib
import json
import multiprocessing
import os
import sys
import time
import traceback

from . import runner

VERIF = os.path.dirname(os.path.dirname(os.path.abspath(__file__)))
KNOWN_PATH = os.path.join(VERIF, "known_findings.json")


def case_hash(case):
    return hashlib.sha1(json.dumps(case, sort_keys=True).encode()).hexdigest()[:16]


def load_known():
    try:
        with open(KNOWN_PATH) as f:
            return json.load(f).get("findings", [])
    except FileNotFoundError:
        return []


def match_known(prop, sig, known):
    """First `known` entry (status == "known") of this property all of whose match attributes equal sig's."""
    for k in known:
        if k.get("status") != "known" or k.get("property") != prop:
            continue
        mt = k.get("match", {})
        if all(str(sig.get(a)) == str(v) for a, v in mt.items()):
            return k
    return None


class PropSpec:
    """What a property module provides.
    id, level, rule (text), strategy(tier) -> hypothesis strategy, run_case(case) -> Outcome-like object with
    .violation (dict|None, with 'property','clause','sig','detail'), .nontrivial (bool), .events (Counter),
    optional .commands/.scripts counters, .diverged; cases(tier) -> number of cases; assumptions list."""


def _worker(modname, tier, seed, widx, ncases, q):
    try:
        import importlib
        from hypothesis import HealthCheck, Phase, given, seed as hseed, settings
        import hypothesis.internal.conjecture.engine as _ce
        _ce.MAX_SHRINKING_SECONDS = int(os.environ.get("RV_SHRINK_S", "60" if tier == "quick" else "240"))
        mod = importlib.import_module(modname)
        spec = mod.SPEC
        known = load_known()
        stats = {"evaluations": 0, "nontrivial_hashes": set(), "events": collections.Counter(),
                 "commands": 0, "scripts": 0, "samples": [], "foreign": collections.Counter(),
                 "known_hits": collections.Counter(), "inconclusive": 0, "known_samples": {}}
        state = {"failed": False, "last_fail": None}

        def one(case):
            try:
                out = spec.run_case(case, tier)
            except runner.Inconclusive as e:
                if not state["failed"]:
                    stats["inconclusive"] += 1
                    stats["events"]["inconclusive: " + str(e)[:80]] += 1
                return
            except (RecursionError, KeyError, ValueError, TypeError, IndexError, AttributeError, OSError) as e:
                d = os.path.join(VERIF, "target", "errors")
                os.makedirs(d, exist_ok=True)
                with open(os.path.join(d, "%s-%s.json" % (spec.id, case_hash(case))), "w") as f:
                    json.dump({"property": spec.id, "case": case, "error": repr(e)[:500],
                               "tb": traceback.format_exc()[-3000:]}, f, indent=1, default=str)
                raise
            counting = not state["failed"]
            if counting:
                stats["evaluations"] += 1
                stats["commands"] += getattr(out, "commands", 0)
                stats["scripts"] += getattr(out, "scripts", 0)
                stats["events"].update(out.events)
            v = out.violation
            if v is not None and v["property"] != spec.id:
                if counting:
                    key = v["property"] + "/" + v["clause"]
                    stats["foreign"][key] += 1
                    if os.environ.get("RV_KEEP_FOREIGN"):
                        d = os.path.join(VERIF, "target", "foreign")
                        os.makedirs(d, exist_ok=True)
                        with open(os.path.join(d, "%s-%s-%s.json" % (spec.id, key.replace("/", "_"), case_hash(case))), "w") as f:
                            json.dump({"property": v["property"], "case": case, "violation": v}, f, indent=1, default=str)
                return
            if v is not None:
                k = match_known(spec.id, v.get("sig", {}), known)
                if k is not None:
                    if counting:
                        stats["known_hits"][k["id"]] += 1
                        stats["known_samples"].setdefault(k["id"], {"case": case, "violation": v})
                    return
                state["failed"] = True
                state["last_fail"] = (case, v, getattr(out, "log", None))
                raise AssertionError("%s/%s" % (v["property"], v["clause"]))
            if counting and out.nontrivial:
                h = case_hash(case)
                stats["nontrivial_hashes"].add(h)
                if len(stats["samples"]) < 2:
                    stats["samples"].append(case)

        strat = spec.strategy(tier)
        test = settings(max_examples=ncases, database=None, deadline=None, derandomize=False,
                        suppress_health_check=list(HealthCheck), phases=[Phase.generate, Phase.shrink],
                        report_multiple_bugs=False, print_blob=False)(
            hseed(seed * 1000 + widx)(given(strat)(one)))
        fail = None
        try:
            test()
        except AssertionError:
            fail = state["last_fail"]
        except BaseException as e:  # Hypothesis wraps some errors
            if state["last_fail"] is not None:
                fail = state["last_fail"]
            else:
                q.put(("error", widx, "".join(traceback.format_exception(type(e), e, e.__traceback__))[-3000:]))
                return
        stats["nontrivial_hashes"] = sorted(stats["nontrivial_hashes"])
        stats["events"] = dict(stats["events"])
        stats["foreign"] = dict(stats["foreign"])
        stats["known_hits"] = dict(stats["known_hits"])
        q.put(("done", widx, stats, fail))
    except BaseException as e:
        q.put(("error", widx, "".join(traceback.format_exception(type(e), e, e.__traceback__))[-3000:]))
    finally:
        try:
            from . import hist
            hist.cleanup_scratch()
        except Exception:
            pass


def write_replay(prop, case, violation, log=None, prefix="fail"):
    d = os.path.join(VERIF, "replays", prop)
    os.makedirs(d, exist_ok=True)
    path = os.path.join(d, "%s-%s.json" % (prefix, case_hash(case)))
    with open(path, "w") as f:
        json.dump({"property": prop, "case": case, "violation": violation, "log": log}, f, indent=1,
                  sort_keys=True, default=str)
    return path


def merge_evidence(a, b, label_a, label_b):
    """Evidence of a property decided by two tiers (e.g. serial histories + scheduled scenarios)."""
    ca, cb = a["coverage"], b["coverage"]
    cov = dict(ca)
    cov["evaluations"] = ca["evaluations"] + cb["evaluations"]
    cov["distinct_nontrivial"] = ca["distinct_nontrivial"] + cb["distinct_nontrivial"]
    cov["rule"] = "[%s] %s  [%s] %s" % (label_a, ca["rule"], label_b, cb["rule"])
    cov["samples"] = (ca["samples"][:2] + cb["samples"][:2])[:4]
    for k in ("commands_executed", "scripts_executed", "inconclusive_cases", "regression_replays"):
        cov[k] = ca.get(k, 0) + cb.get(k, 0)
    cls = dict(ca.get("classes", {}))
    for k, v in cb.get("classes", {}).items():
        cls[k] = cls.get(k, 0) + v
    cov["classes"] = dict(sorted(cls.items()))
    for k in ("other_property_symptoms_seen", "known_finding_hits"):
        d = dict(ca.get(k) or {})
        for kk, v in (cb.get(k) or {}).items():
            d[kk] = d.get(kk, 0) + v
        cov[k] = d
    cov["tiers"] = {label_a: {"evaluations": ca["evaluations"], "distinct_nontrivial": ca["distinct_nontrivial"]},
                    label_b: {"evaluations": cb["evaluations"], "distinct_nontrivial": cb["distinct_nontrivial"]}}
    ev = dict(a)
    ev["coverage"] = cov
    ev["assumptions"] = list(a.get("assumptions", [])) + list(b.get("assumptions", []))
    ev["wall_s"] = round(a["wall_s"] + b["wall_s"], 2)
    ev["violations"] = a["violations"] + b["violations"]
    return ev


def run_property(modname, tier, seed, workers=None):
    """Returns (exit_code, evidence dict)."""
    import importlib
    mod = importlib.import_module(modname)
    spec = mod.SPEC
    t0 = time.time()
    known = load_known()
    violations = []
    known_lines = []
    reg_stats = {"replayed": 0}
    # 1. regression / known-finding replays
    rdir = os.path.join(VERIF, "replays", spec.id)
    if os.path.isdir(rdir):
        for fn in sorted(os.listdir(rdir)):
            if not (fn.startswith("reg-") or fn.startswith("known-")) or not fn.endswith(".json"):
                continue
            with open(os.path.join(rdir, fn)) as f:
                rp = json.load(f)
            if hasattr(spec, "accepts") and not spec.accepts(rp["case"]):
                continue   # a replay of this property's other tier
            out = None
            # a known finding that depends on residual timing gets three chances to show itself again
            for _attempt in range(3 if fn.startswith("known-") else 1):
                try:
                    out = spec.run_case(rp["case"], tier)
                except runner.Inconclusive:
                    out = None
                    continue
                if out.violation is not None or not fn.startswith("known-"):
                    break
            if out is None:
                continue
            reg_stats["replayed"] += 1
            v = out.violation
            if v is not None and v["property"] == spec.id:
                k = match_known(spec.id, v.get("sig", {}), known)
                if k is not None:
                    known_lines.append((k["id"], k["what"]))
                else:
                    violations.append((os.path.join(rdir, fn), v))
    # 2. generated search
    ncases = spec.cases(tier)
    if os.environ.get("RV_SCALE"):
        # smoke-testing a tier with a fraction of its fixed work (never used by the registered commands)
        ncases = max(16, int(ncases * float(os.environ["RV_SCALE"])))
    workers = workers or int(os.environ.get("RV_WORKERS", "16"))
    workers = max(1, min(workers, ncases))
    per = (ncases + workers - 1) // workers
    ctx = multiprocessing.get_context("fork")
    q = ctx.Queue()
    procs = []
    for w in range(workers):
        p = ctx.Process(target=_worker, args=(modname, tier, seed, w, per, q))
        p.start()
        procs.append(p)
    results = []
    errors = []
    for _ in procs:
        msg = q.get()
        if msg[0] == "done":
            results.append(msg)
        else:
            errors.append(msg)
    for p in procs:
        p.join()
    try:
        from . import hist as _h
        _h.cleanup_scratch()
    except Exception:
        pass
    merged = {"evaluations": 0, "hashes": set(), "events": collections.Counter(), "commands": 0, "scripts": 0,
              "samples": [], "foreign": collections.Counter(), "known_hits": collections.Counter(),
              "inconclusive": 0}
    known_samples = {}
    for _, widx, stx, fail in results:
        merged["evaluations"] += stx["evaluations"]
        merged["hashes"].update(stx["nontrivial_hashes"])
        merged["events"].update(stx["events"])
        merged["commands"] += stx["commands"]
        merged["scripts"] += stx["scripts"]
        merged["foreign"].update(stx["foreign"])
        merged["known_hits"].update(stx["known_hits"])
        merged["inconclusive"] += stx["inconclusive"]
        for kid, smp in stx.get("known_samples", {}).items():
            known_samples.setdefault(kid, smp)
        if len(merged["samples"]) < 3:
            merged["samples"].extend(stx["samples"][:1])
        if fail is not None:
            case, v, log = fail
            path = write_replay(spec.id, case, v, log)
            violations.append((path, v))
    for kid, n in merged["known_hits"].items():
        k = [x for x in known if x["id"] == kid][0]
        if (kid, k["what"]) not in known_lines:
            known_lines.append((kid, k["what"]))
    extra = {}
    if hasattr(spec, "extra_evidence"):
        extra = spec.extra_evidence() or {}
    evidence = {
        "property_id": spec.id, "tier": tier, "seed": seed, "level": spec.level,
        "coverage": dict({
            "evaluations": merged["evaluations"] + reg_stats["replayed"],
            "distinct_nontrivial": len(merged["hashes"]),
            "rule": spec.rule,
            "samples": merged["samples"][:3] or [{"note": "no non-trivial sample recorded"}],
            "commands_executed": merged["commands"], "scripts_executed": merged["scripts"],
            "classes": dict(sorted(merged["events"].items())),
            "other_property_symptoms_seen": dict(merged["foreign"]),
            "known_finding_hits": dict(merged["known_hits"]),
            "inconclusive_cases": merged["inconclusive"],
            "regression_replays": reg_stats["replayed"],
            "workers": workers,
        }, **extra),
        "assumptions": list(getattr(spec, "assumptions", [])),
        "wall_s": round(time.time() - t0, 2),
        "violations": len(violations),
    }
    code = 0
    for kid, what in known_lines:
        print("KNOWN-FINDING: property=%s %s (%s)" % (spec.id, what, kid))
    printed = set()
    for path, v in violations:
        if path in printed:
            continue
        printed.add(path)
        print("VIOLATION property=%s replay=%s" % (spec.id, path))
        print("  clause=%s sig=%s" % (v.get("clause"), json.dumps(v.get("sig"))))
        code = 1
    if errors:
        for e in errors:
            sys.stderr.write("worker error:\n%s\n" % e[2])
        if code == 0:
            code = 2
    # generator health
    if code == 0 and hasattr(spec, "health"):
        problem = spec.health(evidence["coverage"])
        if problem:
            sys.stderr.write("generator health problem: %s\n" % problem)
            code = 2
    return code, evidence
