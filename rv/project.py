"""Project DSL -> files on disk, plus the content functions shared by the harness and the model.

A project value (JSON-able):
  {"dirs": ["", "sub"], "sources": ["s0", "sub/s1"],
   "dofiles": {"t.do": {"v": 1, "body": [stmt...]}, "sub/default.o.do": {...}},
   "targets": ["t", "sub/a.o"]}
Statements (all paths root-relative):
  ["dep", use, [paths]]      redo-ifchange paths (one call); if use: fold each path's sha1 into the output
  ["depstem", use, suffix]   redo-ifchange "$2<suffix>" (relative to the .do directory)
  ["ifc", path, use]         if exists: ifchange (+use) else redo-ifcreate
  ["ifcreate_raw", path]     redo-ifcreate path unconditionally
  ["always"] ["ext", name] ["failflag", name, code] ["fail", code] ["work", k] ["err", file]
  ["failflag_direct", name, code]   like failflag, but the failing script first scribbles over its target ($1) itself
  ["out", "stdout"|"file"] ["stamp"] ["stampif", flag]   (redo-stamp only while $RV_CTL/stampflag.<flag> exists)
  ["stampgate", k]           { gate k; output; } | redo-stamp  (the producer of redo-stamp's input sits at a gate)
  ["stampsrc", path]         redo-stamp unless source `path` currently holds its variant 1
  ["usermod"]                while the script runs, "the user" replaces the target file by hand (iff $RV_CTL/usermod.<flag>
                             exists, flag = target with / -> _); content "concurrent <target>\n", fresh inode
"""
import hashlib
import os
import posixpath

LIB_SRC = os.path.join(os.path.dirname(os.path.abspath(__file__)), "lib.sh")
T0 = 1_000_000_000  # fake clock origin for harness-made files (2001); redo-made files carry real "now"


def sha1(b):
    return hashlib.sha1(b).hexdigest()


def source_content(path, variant):
    return ("src %s %d\n" % (path, variant)).encode()


def dirname(p):
    d = posixpath.dirname(p)
    return d


def rel(p, base):
    """path p (root-relative) expressed relative to directory base (root-relative, '' = root)."""
    return posixpath.relpath(p, base or ".")


def do_candidates(t):
    """C13 order, written from the statement: (dofile_path, dodir, arg1, arg2) root-relative, up to the project root."""
    d = dirname(t)
    name = posixpath.basename(t)
    out = [(posixpath.join(d, name + ".do"), d, name, name)]
    cur = d
    sub = ""  # path from cur down to the target's directory
    while True:
        exts = []
        for i, ch in enumerate(name):
            if ch == ".":
                exts.append(i)
        for i in exts:
            ext = name[i:]
            base = name[:i]
            out.append((posixpath.join(cur, "default" + ext + ".do"), cur,
                        posixpath.join(sub, name), posixpath.join(sub, base)))
        out.append((posixpath.join(cur, "default.do"), cur, posixpath.join(sub, name), posixpath.join(sub, name)))
        if cur == "":
            break
        sub = posixpath.join(posixpath.basename(cur), sub) if sub else posixpath.basename(cur)
        cur = dirname(cur)
    return out


def shq(s):
    return "'" + s.replace("'", "'\\''") + "'"


def render_do(dofile, spec):
    """Text of a generated .do file."""
    dodir = dirname(dofile)
    L = ["# version %d" % spec["v"], '. "$RV_LIB"',
         "v_begin %s %s %d \"$1\" \"$2\" \"$3\"" % (shq(dodir), shq(dofile), spec["v"])]
    for st in spec["body"]:
        k = st[0]
        if k == "depflag":
            # redo-ifchange paths only while the harness flag exists: an input of the script that redo does not know
            if st[2]:
                L.append('if [ -e "$RV_CTL/depflag.%s" ]; then v_ifchange %s; fi' % (
                    st[1], " ".join(shq(rel(p, dodir)) for p in st[2])))
        elif k == "dep":
            paths = st[2]
            cd = st[3].get("cd") if len(st) > 3 and isinstance(st[3], dict) else None
            if paths and cd is not None:
                # the script changes its working directory for the call: ( cd dir && redo-ifchange <paths from there> )
                L.append("v_ifchange_cd %s %s" % (shq(rel(cd, dodir) if cd else rel(".", dodir)),
                                                  " ".join(shq(rel(p, cd)) for p in paths)))
            elif paths:
                L.append("v_ifchange " + " ".join(shq(rel(p, dodir)) for p in paths))
            if paths and st[1]:
                for p in paths:
                    L.append("v_use %s %s" % (shq(rel(p, dodir)), shq(p)))
        elif k == "softredo":
            if st[1]:
                L.append("v_redo_soft " + " ".join(shq(rel(p, dodir)) for p in st[1]))
        elif k == "softdep":
            paths = st[2]
            if paths:
                L.append("v_ifchange_soft " + " ".join(shq(rel(p, dodir)) for p in paths))
        elif k == "depstem":
            L.append('v_ifchange "$2"%s' % shq(st[2]))
            if st[1]:
                L.append('v_use "$2"%s "${RV_DODIR:+$RV_DODIR/}$2"%s' % (shq(st[2]), shq(st[2])))
        elif k == "ifc":
            L.append("v_ifc %s %s %d" % (shq(rel(st[1], dodir)), shq(st[1]), 1 if st[2] else 0))
        elif k == "ifcreate_raw":
            L.append("v_ifcreate_raw %s" % shq(rel(st[1], dodir)))
        elif k == "always":
            L.append("v_always")
        elif k == "ext":
            L.append("v_ext %s" % shq(st[1]))
        elif k == "failflag":
            L.append("v_failflag %s %d" % (shq(st[1]), st[2]))
        elif k == "failflag_direct":
            L.append("v_failflag_direct %s %d" % (shq(st[1]), st[2]))
        elif k == "fail":
            L.append("v_exit %d" % st[1])
        elif k == "work":
            L.append("v_work %s" % shq(str(st[1])))
        elif k == "err":
            L.append("v_err %s" % shq(st[1]))
        elif k == "out":
            L.append("v_out %s" % st[1])
        elif k == "stamp":
            L.append("v_stamp")
        elif k == "stampgate":
            # redo-stamp fed through a producer that the harness holds at gate st[1]: redo-stamp has started and waits
            # for its input for as long as the harness wants
            L.append("v_stamp_gated %s" % shq(str(st[1])))
        elif k == "stampif":
            L.append("v_stampif %s" % shq(st[1]))
        elif k == "stampsrc":
            L.append("v_stampsrc %s" % shq(rel(st[1], dodir)))
        elif k == "usermod":
            L.append("v_usermod")
        elif k == "sleep":
            L.append("sleep %s" % ("%.3f" % (st[1] / 1000.0)))
        elif k == "raw":
            L.append(st[1])
        else:
            raise ValueError("unknown statement %r" % (st,))
    L.append("v_end")
    return "\n".join(L) + "\n"


class Clock:
    """Monotone fake mtime source so that every harness write has a distinct, redo-visible stamp."""

    def __init__(self):
        self.n = 0

    def next(self):
        self.n += 1
        return T0 + self.n * 0.01


class Disk:
    """The on-disk side of a case: project root + control dir."""

    def __init__(self, base):
        self.base = base
        self.root = os.path.join(base, "proj")
        self.ctl = os.path.join(base, "ctl")
        self.clock = Clock()
        os.makedirs(self.root)
        os.makedirs(self.ctl)
        with open(LIB_SRC, "rb") as f:
            lib = f.read()
        with open(os.path.join(self.ctl, "lib.sh"), "wb") as f:
            f.write(lib)
        open(os.path.join(self.ctl, "trace"), "w").close()

    def abspath(self, p):
        return os.path.join(self.root, p) if p else self.root

    LINK_DEST = "lnk.dest"      # a plain file of the harness' own that nothing else ever reads or changes
    LINK_DATA = b"destination of hand-made symlinks\n"

    def symlink(self, p):
        """The user puts a symlink to a regular file at p (replacing whatever is there)."""
        ap = self.abspath(p)
        os.makedirs(os.path.dirname(ap), exist_ok=True)
        dest = self.abspath(self.LINK_DEST)
        if not os.path.exists(dest):
            with open(dest, "wb") as f:
                f.write(self.LINK_DATA)
            t = self.clock.next()
            os.utime(dest, (t, t))
        if os.path.lexists(ap):
            os.unlink(ap)
        os.symlink(os.path.relpath(dest, os.path.dirname(ap)), ap)

    def write(self, p, data, fresh_inode=False):
        ap = self.abspath(p)
        os.makedirs(os.path.dirname(ap), exist_ok=True)
        if os.path.islink(ap):
            os.unlink(ap)          # never write through a hand-made symlink
        if fresh_inode:
            tmp = ap + ".rvnew"
            with open(tmp, "wb") as f:
                f.write(data)
            t = self.clock.next()
            os.utime(tmp, (t, t))
            os.replace(tmp, ap)
        else:
            with open(ap, "wb") as f:
                f.write(data)
            t = self.clock.next()
            os.utime(ap, (t, t))

    def touch(self, p):
        t = self.clock.next()
        os.utime(self.abspath(p), (t, t))

    def mkdir(self, p):
        os.makedirs(self.abspath(p), exist_ok=True)

    def remove(self, p):
        try:
            if os.path.islink(self.abspath(p)):
                os.unlink(self.abspath(p))
                return
            os.unlink(self.abspath(p))
        except FileNotFoundError:
            pass
        except IsADirectoryError:
            os.rmdir(self.abspath(p))

    def read(self, p):
        try:
            with open(self.abspath(p), "rb") as f:
                return f.read()
        except (FileNotFoundError, NotADirectoryError):
            return None
        except IsADirectoryError:
            return b"<dir>"

    def materialize(self, proj):
        for d in proj.get("dirs", []):
            os.makedirs(self.abspath(d), exist_ok=True)
        for s in proj.get("sources", []):
            self.write(s, source_content(s, 0))
        for dof, spec in proj.get("dofiles", {}).items():
            self.write(dof, render_do(dof, spec).encode())
        for name, text in proj.get("errfiles", {}).items():
            with open(os.path.join(self.ctl, name), "wb") as f:
                f.write(text.encode("utf-8"))

    def set_ext(self, name, val):
        with open(os.path.join(self.ctl, "ext." + name), "w") as f:
            f.write(val)

    def set_fail(self, name, on):
        p = os.path.join(self.ctl, "fail." + name)
        if on:
            open(p, "w").close()
        else:
            try:
                os.unlink(p)
            except FileNotFoundError:
                pass

    def set_stampflag(self, name, on):
        p = os.path.join(self.ctl, "stampflag." + name)
        if on:
            open(p, "w").close()
        else:
            try:
                os.unlink(p)
            except FileNotFoundError:
                pass

    def take_trace(self):
        """Return and clear the trace written by the scripts since the last call."""
        p = os.path.join(self.ctl, "trace")
        with open(p, "r+") as f:
            data = f.read()
            f.seek(0)
            f.truncate()
        return [l for l in data.split("\n") if l]

    def stray_files(self):
        """Files in the project tree outside .redo that look like redo temporaries."""
        out = []
        for dp, dn, fn in os.walk(self.root):
            if ".redo" in dn:
                dn.remove(".redo")
            for f in fn:
                if f.endswith(".redo.tmp") or f.endswith(".rvnew"):
                    out.append(os.path.relpath(os.path.join(dp, f), self.root))
        return out
