# Instrumented script library sourced by every generated .do file.
# Environment: RV_CTL (control dir: trace, gates, ext inputs, fail flags, payload files).
rv_tr() { printf '%s\n' "$*" >> "$RV_CTL/trace"; }
rv_ev() { if [ -n "${RV_EVENTS:-}" ]; then printf '%s\n' "$*" > "$RV_CTL/events"; fi; }
v_begin() { # dodir_rel dofile_rel version $1 $2 $3
  RV_DODIR=$1; RV_DOF=$2; RV_VER=$3; RV_A1=$4; RV_A2=$5; RV_A3=$6
  RV_T=${RV_DODIR:+$RV_DODIR/}$RV_A1
  RV_ACC="T $RV_T $RV_DOF v$RV_VER
"
  rv_tr "S|$RV_T|$$|$PPID"
  rv_tr "A|$RV_T|$RV_A1|$RV_A2|$RV_A3|$PWD"
  rv_ev "S|$RV_T|$$|$PPID"
}
v_exit() { rv_tr "X|$RV_T|$1|$$"; rv_ev "X|$RV_T|$1|$$"; exit "$1"; }
v_ifchange() {
  _rc=0; redo-ifchange "$@" || _rc=$?
  rv_tr "R|$RV_T|$_rc|ifchange|$*"
  [ "$_rc" = 0 ] || v_exit "$_rc"
}
v_ifchange_cd() { # dir paths-as-seen-from-dir...: the call is made from another working directory
  _d=$1; shift
  _rc=0; ( cd "$_d" && redo-ifchange "$@" ) || _rc=$?
  rv_tr "R|$RV_T|$_rc|ifchange|$*"
  [ "$_rc" = 0 ] || v_exit "$_rc"
}
v_ifchange_soft() { # like v_ifchange but remembers the status instead of exiting (keep-going style scripts)
  _rc=0; redo-ifchange "$@" || _rc=$?
  rv_tr "R|$RV_T|$_rc|ifchange|$*"
  [ "$_rc" = 0 ] || RV_SOFT=$_rc
}
v_redo_soft() { # forced rebuild from inside a script; the status is remembered, the script goes on
  _rc=0; redo "$@" || _rc=$?
  rv_tr "R|$RV_T|$_rc|redo|$*"
  [ "$_rc" = 0 ] || RV_SOFT=$_rc
}
v_use() { # rel rootrel
  if [ -d "$1" ]; then _h=dir; elif [ -e "$1" ]; then _h=$(sha1sum < "$1"); _h=${_h%% *}; else _h=missing; fi
  RV_ACC="${RV_ACC}D $2 $_h
"
}
v_ifc() { # rel rootrel use
  if [ -e "$1" ]; then
    v_ifchange "$1"
    if [ "$3" = 1 ]; then v_use "$1" "$2"; else RV_ACC="${RV_ACC}I $2 present
"; fi
  else
    _rc=0; redo-ifcreate "$1" || _rc=$?
    rv_tr "R|$RV_T|$_rc|ifcreate|$1"
    [ "$_rc" = 0 ] || v_exit "$_rc"
    RV_ACC="${RV_ACC}I $2 absent
"
  fi
}
v_ifcreate_raw() { # rel
  _rc=0; redo-ifcreate "$1" || _rc=$?
  rv_tr "R|$RV_T|$_rc|ifcreate|$1"
  [ "$_rc" = 0 ] || v_exit "$_rc"
}
v_always() {
  _rc=0; redo-always || _rc=$?
  rv_tr "R|$RV_T|$_rc|always|"
  [ "$_rc" = 0 ] || v_exit "$_rc"
}
v_ext() { # name
  if [ -e "$RV_CTL/ext.$1" ]; then _c=$(cat "$RV_CTL/ext.$1"); else _c=none; fi
  RV_ACC="${RV_ACC}X $1 $_c
"
}
v_failflag() { # name code
  if [ -e "$RV_CTL/fail.$1" ]; then v_exit "$2"; fi
}
v_failflag_direct() { # name code: fail iff the flag exists, after writing the target file directly
  if [ -e "$RV_CTL/fail.$1" ]; then printf 'scribble %s\n' "$RV_T" > "$RV_A1"; v_exit "$2"; fi
}
v_work() { # gate id: announce, block until the harness opens the gate FIFO for writing, announce again
  rv_tr "W|$RV_T|$1|$$"
  if [ -n "${RV_EVENTS:-}" ]; then
    mkfifo "$RV_CTL/go.$$.$1"
    rv_ev "W|$RV_T|$1|$$"
    read _x < "$RV_CTL/go.$$.$1" || true
  fi
  rv_tr "E|$RV_T|$1|$$"
  rv_ev "E|$RV_T|$1|$$"
}
v_err() { cat "$RV_CTL/$1" >&2; }
v_out() { # stdout | file
  case "$1" in
    stdout) printf %s "$RV_ACC" ;;
    file) printf %s "$RV_ACC" > "$RV_A3" ;;
  esac
}
v_stamp() { printf %s "$RV_ACC" | redo-stamp; }
v_stamp_gated() { { v_work "$1"; printf %s "$RV_ACC"; } | redo-stamp; }
v_usermod() { # the "user" replaces the target by hand while its build runs (only while the harness flag exists)
  _f=$(printf %s "$RV_T" | tr / _)
  if [ -e "$RV_CTL/usermod.$_f" ]; then
    printf 'concurrent %s\n' "$RV_T" > "$RV_A1.rvnew" && mv "$RV_A1.rvnew" "$RV_A1"
    rm -f "$RV_CTL/usermod.$_f"
    rv_tr "U|$RV_T|$$"
  fi
}
v_stampsrc() { case "$(cat "$1" 2>/dev/null)" in *" 1") ;; *) v_stamp ;; esac; }
v_stampif() { if [ -e "$RV_CTL/stampflag.$1" ]; then v_stamp; fi; }
v_end() { v_exit "${RV_SOFT:-0}"; }
