"""Scenario generators for engine S (schedules)."""
import posixpath

from hypothesis import strategies as st


def _pick(draw, xs):
    return xs[draw(st.integers(0, len(xs) - 1))]


def _subset(draw, xs, lo, hi):
    hi = min(hi, len(xs))
    lo = min(lo, hi)
    n = draw(st.integers(lo, hi))
    pool = list(xs)
    out = []
    for _ in range(n):
        out.append(pool.pop(draw(st.integers(0, len(pool) - 1))))
    return out


@st.composite
def graphs(draw, o=None):
    """Layered DAG: leaves (mostly gated) <- mids (overlapping subsets) <- tops. All scripts succeed unless
    o['fail'] names a probability for a harness-flag failure."""
    o = dict(o or {})
    nleaf = draw(st.integers(o.get("min_leaf", 2), o.get("max_leaf", 5)))
    nmid = draw(st.integers(o.get("min_mid", 1), o.get("max_mid", 4)))
    ntop = draw(st.integers(1, 2))
    dofiles = {}
    leaves, mids, tops = [], [], []
    p_gate = o.get("p_gate", 70)
    csum_p = o.get("p_csum", 15)
    always_p = o.get("p_always", 10)

    def finish(body, name):
        if draw(st.integers(0, 99)) < o.get("p_fail", 0):
            body.insert(draw(st.integers(0, len(body))), ["failflag", name, 3])
        body.append(["out", draw(st.sampled_from(["stdout", "file"]))])
        if draw(st.integers(0, 99)) < o.get("p_postgate", 0):
            body.append(["work", 3])   # holds the script AFTER it has written its output ($3 / stdout) and before it exits
        if draw(st.integers(0, 99)) < csum_p:
            body.append(["stamp"])
            if draw(st.integers(0, 99)) < o.get("p_lossy", 0):
                # lossy projection: the declared dependencies do not reach the output, so a rebuild after an edit
                # leaves the checksum unchanged
                for stt in body:
                    if stt[0] == "dep":
                        stt[1] = 0
            if draw(st.integers(0, 99)) < o.get("p_poststamp_gate", 0):
                body.append(["work", 4])   # holds the script between its redo-stamp call and its exit
        return body
    stem_pair = None
    stem_by_default = False
    for i in range(nleaf):
        t = "l%d" % i
        # sibling targets that share a stem and differ only in the (last) extension: l0.a / l0.b, or l0 / l0.a
        if stem_pair is not None:
            t = stem_pair
            stem_pair = None
        elif i + 1 < nleaf and draw(st.integers(0, 99)) < o.get("p_stem", 0):
            if draw(st.integers(0, 1)):
                t, stem_pair = "l%d.a" % i, "l%d.b" % i
            else:
                t, stem_pair = "l%d" % i, "l%d.a" % i
        body = [["dep", 1, ["s0"]]]
        if draw(st.integers(0, 99)) < always_p:
            body.append(["always"])
        if draw(st.integers(0, 99)) < p_gate:
            body.append(["work", 1])
        dofn = t + ".do"
        if (t.endswith(".a") or t.endswith(".b")) and o.get("p_stem_default", 0):
            if t.endswith(".a"):
                stem_by_default = draw(st.integers(0, 99)) < o["p_stem_default"]
            if stem_by_default:
                # both siblings are built by default.<ext>.do rules (their $3 names must still differ)
                dofn = "default%s.do" % t[-2:]
        if dofn not in dofiles:
            dofiles[dofn] = {"v": 1, "body": finish(body, t)}
        leaves.append(t)
    for i in range(nmid):
        t = "m%d" % i
        deps = _subset(draw, leaves + mids[:max(0, i - 1)], 1, 3)
        body = []
        if draw(st.integers(0, 99)) < 30:
            body.append(["work", 0])
        # one redo-ifchange with all deps (parallel) or two sequential calls
        if len(deps) >= 2 and draw(st.integers(0, 99)) < 30:
            body.append(["dep", 1, deps[:1]])
            body.append(["dep", 1, deps[1:]])
        else:
            body.append(["dep", 1, deps])
        if draw(st.integers(0, 99)) < 25:
            body.append(["work", 2])
        dofiles[t + ".do"] = {"v": 1, "body": finish(body, t)}
        mids.append(t)
    for i in range(ntop):
        t = "top%d" % i
        deps = _subset(draw, mids + leaves, 1, 4)
        dofiles[t + ".do"] = {"v": 1, "body": finish([["dep", 1, deps]], t)}
        tops.append(t)
    return {"dirs": [""], "sources": ["s0"], "dofiles": dofiles, "targets": leaves + mids + tops, "watch": [],
            "layers": {"leaves": leaves, "mids": mids, "tops": tops}}


@st.composite
def schedule(draw, n=24):
    return draw(st.lists(st.integers(0, 65535), min_size=0, max_size=n))


def spell_variants(t):
    return [t, "./" + t, ".//" + t]
