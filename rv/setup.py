"""setup_cmd: build everything the checks need from files on disk (offline)."""
import os
import subprocess
import sys

from . import sut


def main():
    try:
        sut.build()
    except sut.BuildError as e:
        sys.stderr.write(str(e) + "\n")
        return 1
    here = os.path.dirname(os.path.dirname(os.path.abspath(__file__)))
    shim = os.path.join(here, "shim")
    if os.path.exists(os.path.join(shim, "Makefile")):
        if subprocess.call(["make", "-s", "-C", shim]) != 0:
            return 1
    inproc = os.path.join(here, "inproc")
    if os.path.exists(os.path.join(inproc, "Cargo.toml")):
        env = sut.cargo_env()
        env["CARGO_TARGET_DIR"] = os.path.join(here, "target", "inproc")
        if subprocess.call(["cargo", "build", "--offline", "--release", "--manifest-path",
                            os.path.join(inproc, "Cargo.toml")], env=env) != 0:
            return 1
    try:
        from . import fuzz
        ok, msg = fuzz.build()
        if not ok:
            # not fatal: the coverage-guided tier of C13/C15/C18 reports itself as disabled in the evidence
            sys.stderr.write("note: fuzz targets did not build: %s\n" % msg[-400:])
    except Exception as e:
        sys.stderr.write("note: fuzz build skipped: %r\n" % (e,))
    print("setup ok")
    return 0
