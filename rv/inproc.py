"""Build and run the in-process Rust drivers (crate inproc/, path-dependency on /repo's library)."""
import json
import os
import shutil
import subprocess

from . import sut

VERIF = sut.VERIF
TDIR = os.path.join(VERIF, "target", "inproc")
BIN = os.path.join(TDIR, "release", "rv-inproc")


def build():
    """Rebuild against /repo's current tree. Returns (ok, message)."""
    env = sut.cargo_env()
    env["CARGO_TARGET_DIR"] = TDIR
    lock = os.path.join(VERIF, "inproc", "Cargo.lock")
    p = subprocess.run(["cargo", "build", "--offline", "--release", "--manifest-path",
                        os.path.join(VERIF, "inproc", "Cargo.toml")], env=env,
                       stdout=subprocess.PIPE, stderr=subprocess.STDOUT, text=True)
    if p.returncode != 0:
        return False, p.stdout[-3000:]
    return True, ""


def run(mode, n, seed, *extra, timeout=3600):
    scratch = "/dev/shm/rv-inproc-%d-%s" % (os.getpid(), mode)
    shutil.rmtree(scratch, ignore_errors=True)
    try:
        args = [BIN, mode, str(n), str(seed), scratch] + list(extra)
        p = subprocess.run(args, stdout=subprocess.PIPE, stderr=subprocess.PIPE, text=True, timeout=timeout)
        if p.returncode != 0:
            return {"evaluations": 0, "nontrivial": 0, "classes": {}, "samples": [],
                    "failures": [{"input": mode, "detail": "driver exited %d: %s" % (p.returncode, p.stderr[-1500:])}]}
        return json.loads(p.stdout.strip().split("\n")[-1])
    finally:
        shutil.rmtree(scratch, ignore_errors=True)
