"""Hypothesis strategies for projects and histories (engine H)."""
import copy
import posixpath

from hypothesis import strategies as st

from . import project as P


def _pick(draw, xs):
    return xs[draw(st.integers(0, len(xs) - 1))]


def _subset(draw, xs, lo, hi):
    hi = min(hi, len(xs))
    lo = min(lo, hi)
    n = draw(st.integers(lo, hi))
    pool = list(xs)
    out = []
    for _ in range(n):
        i = draw(st.integers(0, len(pool) - 1))
        out.append(pool.pop(i))
    return out


def gen_body(draw, avail, o, name):
    """A script body whose ifchange-dependencies come from `avail` (acyclic by construction)."""
    body = []
    csum = draw(st.integers(0, 99)) < o.get("p_csum", 30)
    ngroups = draw(st.integers(1, 2)) if avail else 0
    for g in range(ngroups):
        paths = _subset(draw, avail, 1, 3)
        use = 1
        if csum and draw(st.integers(0, 99)) < 50:
            use = 0  # lossy: the dependency is declared but its content does not reach the output
        body.append(["dep", use, paths])
    if draw(st.integers(0, 99)) < o.get("p_always", 10):
        body.append(["always"])
        body.append(["ext", name.replace("/", "_")])
    if draw(st.integers(0, 99)) < o.get("p_ifc", 15):
        body.append(["ifc", _pick(draw, o["watch"]), draw(st.integers(0, 1))])
    if draw(st.integers(0, 99)) < o.get("p_ifcreate_raw", 0):
        body.append(["ifcreate_raw", _pick(draw, o["watch"])])
    if draw(st.integers(0, 99)) < o.get("p_failflag", 20):
        pos = draw(st.integers(0, len(body)))
        kind_ = "failflag_direct" if draw(st.integers(0, 99)) < o.get("p_fail_direct", 0) else "failflag"
        body.insert(pos, [kind_, name.replace("/", "_"), draw(st.sampled_from([1, 2, 7, 99]))])
    if draw(st.integers(0, 99)) < o.get("p_usermod", 0):
        body.append(["usermod"])
    body.append(["out", draw(st.sampled_from(["stdout", "file"]))])
    if csum:
        if draw(st.integers(0, 99)) < o.get("p_stampif", 0):
            # the same rule builds sometimes with and sometimes without a recorded checksum: it stamps only while a
            # harness flag exists, or only while one of the sources it depends on does not hold its variant 1
            srcdeps = [q for stt in body if stt[0] == "dep" for q in stt[2] if q in o.get("_sources", ())]
            if srcdeps and draw(st.integers(0, 1)):
                body.append(["stampsrc", srcdeps[0]])
            else:
                body.append(["stampif", name.replace("/", "_")])
        else:
            body.append(["stamp"])
    return body


@st.composite
def projects(draw, o=None):
    o = dict(o or {})
    dirs = [""]
    nd = draw(st.integers(0, o.get("max_dirs", 2)))
    if nd >= 1:
        dirs.append("d1")
    if nd >= 2:
        dirs.append(draw(st.sampled_from(["d1/d2", "d2"])))
    nsrc = draw(st.integers(2, o.get("max_sources", 4)))
    sources = []
    for i in range(nsrc):
        d = _pick(draw, dirs)
        sources.append(posixpath.join(d, "s%d" % i))
    watch = [posixpath.join(_pick(draw, dirs), "w%d" % i) for i in range(2)]
    o["watch"] = watch
    o["_sources"] = list(sources)
    nt = draw(st.integers(o.get("min_targets", 3), o.get("max_targets", 8)))
    targets = []
    dofiles = {}
    dometa = {}  # dofile -> number of leading targets its body may depend on
    for i in range(nt):
        d = _pick(draw, dirs)
        kind = draw(st.integers(0, 99))
        avail = sources + targets
        if kind < o.get("p_default", 30):
            ext = draw(st.sampled_from([".x", ".y.x", ".z"]))
            t = posixpath.join(d, "t%d%s" % (i, ext))
            # the rule lives in the target's directory or an ancestor, with one of the matching extensions
            anc = [d]
            while anc[-1] != "":
                anc.append(P.dirname(anc[-1]))
            dd = _pick(draw, anc)
            exts = [ext] + ([".x"] if ext == ".y.x" else []) + [""]
            e = _pick(draw, exts)
            dof = posixpath.join(dd, "default%s.do" % e)
            cands = [c[0] for c in P.do_candidates(t)]
            existing = next((c for c in cands if c in dofiles), None)
            if existing is not None and cands.index(existing) <= cands.index(dof):
                dof = existing  # an existing rule of equal or higher priority builds this target
            else:
                captured = False
                for tj in targets:
                    cj = [c[0] for c in P.do_candidates(tj)]
                    rj = next((c for c in cj if c in dofiles), None)
                    if dof in cj and (rj is None or cj.index(dof) < cj.index(rj)):
                        captured = True
                if captured:
                    dof = t + ".do"   # would hijack an earlier target (cycle risk): use a specific rule
            if dof not in dofiles:
                body = gen_body(draw, avail, o, "r%d" % i)
                if dof != t + ".do" and draw(st.integers(0, 99)) < 40:
                    # a per-target input next to the target: "$2.in"
                    body.insert(0, ["depstem", 1, ".in"])
                dofiles[dof] = {"v": 1, "body": body}
                dometa[dof] = i
        else:
            t = posixpath.join(d, "t%d" % i)
            dof = t + ".do"
            dofiles[dof] = {"v": 1, "body": gen_body(draw, avail, o, "t%d" % i)}
            dometa[dof] = i
        targets.append(t)
    gendirs = []
    if draw(st.integers(0, 99)) < o.get("p_gendir", 0):
        # a directory that holds nothing but generated files (built by a default rule in the root): the user may
        # remove it wholesale (rm -rf build/) and create it again; while it is missing, builds into it fail
        dirs.append("g")
        gendirs.append("g")
        avail = sources + targets
        body = gen_body(draw, avail, dict(o, p_ifc=0, p_ifcreate_raw=0, p_usermod=0), "q")
        dofiles["default.q.do"] = {"v": 1, "body": body}
        dometa["default.q.do"] = len(targets)
        for k_ in range(draw(st.integers(1, 2))):
            targets.append("g/u%d.q" % k_)
        if draw(st.integers(0, 1)):
            dofiles["gp.do"] = {"v": 1, "body": [["dep", 1, ["g/u0.q"]], ["out", "stdout"]]}
            dometa["gp.do"] = len(targets)
            targets.append("gp")
    proj = {"dirs": dirs, "sources": sources, "dofiles": dofiles, "targets": targets, "watch": watch,
            "dometa": dometa, "gendirs": gendirs}
    # per-target inputs required by depstem rules
    fix_stem_sources(proj)
    return proj


def stem_inputs(proj):
    """Paths "$2.in" needed by targets whose currently chosen rule has a depstem statement."""
    need = []
    for t in proj["targets"]:
        for cand, dodir, a1, a2 in P.do_candidates(t):
            if cand in proj["dofiles"]:
                for stt in proj["dofiles"][cand]["body"]:
                    if stt[0] == "depstem":
                        need.append(posixpath.normpath(posixpath.join(dodir, a2 + stt[2])))
                break
    return need


def fix_stem_sources(proj):
    for s in stem_inputs(proj):
        if s not in proj["sources"]:
            proj["sources"].append(s)


def rule_of(proj, t, dofiles=None):
    dofiles = proj["dofiles"] if dofiles is None else dofiles
    for cand, dodir, a1, a2 in P.do_candidates(t):
        if cand in dofiles:
            return cand
    return None


@st.composite
def histories(draw, o=None):
    """A case: project + configuration + list of operations (names resolved at generation time;
    preconditions are re-checked by the interpreter, which skips what does not apply)."""
    o = dict(o or {})
    proj = draw(projects(o))
    o["watch"] = proj["watch"]
    o["_sources"] = list(proj["sources"])
    targets = proj["targets"]
    sources = proj["sources"]
    dirs = proj["dirs"]
    dofiles = copy.deepcopy(proj["dofiles"])
    dometa = dict(proj["dometa"])
    n = draw(st.integers(o.get("min_ops", 5), o.get("max_ops", 14)))
    w = o.get("weights", {})
    kinds = []
    for k, dflt in (("cmd", 40), ("edit", 16), ("touch", 4), ("rmtarget", 8), ("setdo", 8), ("adddo", 4),
                    ("rmdo", 3), ("mkpath", 5), ("rmpath", 3), ("ext", 4), ("failflag", 6), ("query", 0),
                    ("mwrite", 0), ("mreplace", 0), ("mremove", 0), ("redo", 8), ("stampflag", 0), ("crash", 0), ("usermodflag", 0), ("dropdep", 0), ("msymlink", 0),
                    ("rmgendir", 0), ("mkgendir", 0)):
        kinds += [k] * w.get(k, dflt)
    ops = []
    # locality: with probability p_focus an operation that names a target names one of 1-2 "focus" targets, so that
    # multi-step shapes on ONE target (build, edit by hand, build, edit again, build ...) are not vanishingly rare
    focus = _subset(draw, targets, 1, 2)
    pf = o.get("p_focus", 0)

    def pick_target():
        if pf and draw(st.integers(0, 99)) < pf:
            return _pick(draw, focus)
        return _pick(draw, targets)
    for _ in range(n):
        k = _pick(draw, kinds)
        if k in ("cmd", "redo"):
            ts = _subset(draw, targets, 1, o.get("max_cmd_targets", 2))
            if pf and draw(st.integers(0, 99)) < pf:
                f0 = _pick(draw, focus)
                ts = [f0] + [t for t in ts[1:] if t != f0]
            cwd = _pick(draw, dirs) if draw(st.integers(0, 99)) < 30 else ""
            ops.append(["cmd", "redo" if k == "redo" else "ifchange", ts, cwd])
        elif k == "edit":
            # the new content is one of three variants, so that an edit can also REVERT a source to bytes it had
            # before (the mtime still moves forward)
            ops.append(["edit", _pick(draw, sources), draw(st.integers(0, o.get("edit_variants", 3) - 1))])
        elif k == "touch":
            ops.append(["touch", _pick(draw, sources)])
        elif k == "rmtarget":
            ops.append(["rmtarget", pick_target()])
        elif k == "setdo":
            dof = _pick(draw, sorted(dofiles))
            lim = dometa[dof]
            avail = sources[:len(proj["sources"])] + targets[:lim]
            spec = {"v": dofiles[dof]["v"] + 1, "body": gen_body(draw, avail, o, "e%d" % len(ops))}
            if any(s[0] == "depstem" for s in dofiles[dof]["body"]) and draw(st.integers(0, 1)):
                spec["body"].insert(0, ["depstem", 1, ".in"])
            dofiles[dof] = spec
            ops.append(["setdo", dof, spec])
        elif k == "adddo":
            t = _pick(draw, targets)
            cur = rule_of(proj, t, dofiles)
            cands = [c[0] for c in P.do_candidates(t)]
            if cur is None or cands.index(cur) == 0:
                continue
            newdof = cands[draw(st.integers(0, cands.index(cur) - 1))]
            matched = [i for i, tt in enumerate(targets)
                       if newdof in [c[0] for c in P.do_candidates(tt)]]
            lim = min(matched)
            avail = sources[:len(proj["sources"])] + targets[:lim]
            spec = {"v": 1, "body": gen_body(draw, avail, o, "a%d" % len(ops))}
            dofiles[newdof] = spec
            dometa[newdof] = lim
            ops.append(["setdo", newdof, spec])
        elif k == "rmdo":
            dof = _pick(draw, sorted(dofiles))
            rest = {d: s for d, s in dofiles.items() if d != dof}
            if all(rule_of(proj, t, rest) is not None for t in targets):
                # the fallback rules must keep the graph acyclic: only allowed if they were made for lower targets
                ok = True
                for i, t in enumerate(targets):
                    r = rule_of(proj, t, rest)
                    if dometa[r] > i:
                        ok = False
                    if any(s[0] == "depstem" for s in rest[r]["body"]):
                        ok = ok and (rule_of(proj, t, dofiles) == r)
                if ok:
                    dofiles = rest
                    ops.append(["rmdo", dof])
        elif k == "mkpath":
            if draw(st.integers(0, 99)) < o.get("p_dangling", 0):
                ops.append(["mkpath", _pick(draw, proj["watch"]), "dangling"])
            elif draw(st.integers(0, 99)) < o.get("p_mkdir", 0):
                ops.append(["mkpath", _pick(draw, proj["watch"]), "dir"])
            else:
                ops.append(["mkpath", _pick(draw, proj["watch"])])
        elif k == "rmpath":
            ops.append(["rmpath", _pick(draw, proj["watch"])])
        elif k == "ext":
            ops.append(["ext", _pick(draw, ["t%d" % i for i in range(len(targets))] + ["r0"]),
                        "e%d" % draw(st.integers(0, 3))])
        elif k == "failflag":
            names = sorted({s[1] for spec in dofiles.values() for s in spec["body"] if s[0] in ("failflag", "failflag_direct")})
            if names:
                ops.append(["failflag", _pick(draw, names), draw(st.integers(0, 1))])
        elif k == "dropdep":
            # a burst the statement of C02 names explicitly: a target stops declaring a dependency (its .do is edited,
            # possibly after its file was removed), is rebuilt -- directly or through a dependent --, and the dropped
            # file is edited afterwards: nothing may run then
            cands = []
            for dof in sorted(dofiles):
                if dof.startswith("default") or "/default" in dof or not dof.endswith(".do"):
                    continue
                for gi, stt in enumerate(dofiles[dof]["body"]):
                    if stt[0] == "dep":
                        for q in stt[2]:
                            if q in sources:
                                cands.append((dof, gi, q))
            if cands:
                dof, gi, q = _pick(draw, cands)
                t = dof[:-3]
                spec = copy.deepcopy(dofiles[dof])
                spec["v"] += 1
                grp = [x for x in spec["body"][gi][2] if x != q]
                if grp:
                    spec["body"][gi][2] = grp
                else:
                    del spec["body"][gi]
                still = any(stt[0] == "dep" and q in stt[2] for stt in spec["body"])
                parents = [u for u in targets if u != t and rule_of(proj, u, dofiles) is not None and any(
                    stt[0] == "dep" and t in stt[2] for stt in dofiles[rule_of(proj, u, dofiles)]["body"])]
                req = _pick(draw, parents) if parents and draw(st.integers(0, 1)) else t
                if not still and t in targets:
                    if draw(st.integers(0, 1)):
                        ops.append(["cmd", "ifchange", [req], ""])
                    if draw(st.integers(0, 1)):
                        ops.append(["rmtarget", t])
                    dofiles[dof] = spec
                    ops.append(["setdo", dof, spec])
                    ops.append(["cmd", "ifchange", [req], ""])
                    if draw(st.integers(0, 1)):
                        ops.append(["cmd", "ifchange", [req], ""])
                    ops.append(["edit", q, draw(st.integers(0, o.get("edit_variants", 3) - 1))])
                    ops.append(["cmd", "ifchange", [req], ""])
        elif k in ("rmgendir", "mkgendir"):
            if proj.get("gendirs"):
                ops.append([k, proj["gendirs"][0]])
                if k == "rmgendir" and draw(st.integers(0, 99)) < 60:
                    # the shape of interest: a build into the missing directory (fails), the directory comes back,
                    # the same build again
                    gts = [t for t in targets if t.startswith(proj["gendirs"][0] + "/")] + (["gp"] if "gp" in targets else [])
                    req = [_pick(draw, gts)]
                    if draw(st.integers(0, 1)):
                        ops.append(["edit", _pick(draw, sources), draw(st.integers(0, o.get("edit_variants", 3) - 1))])
                    ops.append(["cmd", "ifchange", req, ""])
                    ops.append(["mkgendir", proj["gendirs"][0]])
                    ops.append(["cmd", "ifchange", req, ""])
        elif k == "usermodflag":
            ops.append(["usermodflag", pick_target()])
        elif k == "crash":
            ts = [pick_target()]
            cwd = _pick(draw, dirs) if draw(st.integers(0, 99)) < 30 else ""
            ops.append(["crash", "redo" if draw(st.integers(0, 4)) == 0 else "ifchange", ts, cwd,
                        draw(st.integers(1, 140)), draw(st.sampled_from(["group", "group", "self"]))])
        elif k == "stampflag":
            names = sorted({s[1] for spec in dofiles.values() for s in spec["body"] if s[0] == "stampif"})
            if names:
                ops.append(["stampflag", _pick(draw, names), draw(st.integers(0, 1))])
        elif k == "query":
            ops.append(["query", draw(st.sampled_from(["ood", "targets", "sources"])),
                        _pick(draw, dirs) if draw(st.integers(0, 99)) < 30 else ""])
        elif k in ("mwrite", "mreplace", "mremove", "msymlink"):
            ops.append([k, pick_target()])
    cfg = {"log": draw(st.integers(0, 1)), "keep_going": 0}
    if o.get("edit_variants", 3) != 3:
        cfg["nvariants"] = o["edit_variants"]
    flags = sorted({s[1] for spec in proj["dofiles"].values() for s in spec["body"] if s[0] == "stampif"})
    if flags:
        cfg["stampflags_on"] = [f for f in flags if draw(st.integers(0, 1))]
    if o.get("keep_going"):
        cfg["keep_going"] = draw(st.integers(0, 1))
    proj = dict(proj)
    proj.pop("dometa", None)
    return {"project": proj, "cfg": cfg, "ops": ops}


@st.composite
def nested_chains(draw, o=None):
    """Directed family (C02/C03): a chain of 4-6 targets with at least TWO checksummed levels and plain targets
    between / above them, one private source per level (a checksummed level ignores its source's content in half of
    the cases, so that an edit re-runs it without changing its checksum), optional side consumers.  Histories: build
    the top, then rounds of "edit any subset of the sources, ask for the top (or top and a side consumer)"."""
    o = dict(o or {})
    n = draw(st.integers(4, 6))
    targets = ["t%d" % i for i in range(n)]
    sources = ["s%d" % i for i in range(n)]
    stamped = set(_subset(draw, list(range(n - 1)), 2, 3))
    dofiles = {}
    for i, t in enumerate(targets):
        body = []
        own = ["dep", 0 if (i in stamped and draw(st.integers(0, 1))) else 1, [sources[i]]]
        # (a checksummed level may also ignore the CONTENT of the level below: inner change, outer unchanged)
        below = ["dep", 0 if (i in stamped and draw(st.integers(0, 99)) < 40) else 1, [targets[i - 1]]] if i > 0 else None
        parts = [own] + ([below] if below else [])
        if len(parts) == 2 and draw(st.integers(0, 99)) < 30:
            parts = [["dep", 1, [sources[i], targets[i - 1]]]] if own[1] == 1 and below[1] == 1 else parts[::-1]
        elif len(parts) == 2 and draw(st.integers(0, 1)):
            parts = parts[::-1]
        body += parts
        body.append(["out", draw(st.sampled_from(["stdout", "file"]))])
        if i in stamped:
            body.append(["stamp"])
        dofiles[t + ".do"] = {"v": 1, "body": body}
    sides = []
    for k in range(draw(st.integers(0, 2))):
        x = "x%d" % k
        deps = _subset(draw, targets[:-1], 1, 2)
        dofiles[x + ".do"] = {"v": 1, "body": [["dep", 1, deps], ["out", "stdout"]]}
        sides.append(x)
    top = targets[-1]
    ops = [["cmd", "ifchange", [top] + sides, ""]]
    for _ in range(draw(st.integers(3, 7))):
        for s in _subset(draw, sources, 1, 3):
            ops.append(["edit", s, draw(st.integers(0, 2))])
        k = draw(st.integers(0, 99))
        if k < 15:
            # one redo process of that command is killed (e.g. by the OOM killer) before its n-th state-changing call:
            # if the command still claims success, what it was asked for must be right; then a recovery run
            ops.append(["crash", "ifchange", [top], "", draw(st.integers(1, 160)), draw(st.sampled_from(["self", "self", "group"]))])
        elif k < 60:
            ops.append(["cmd", "ifchange", [top], ""])
        elif k < 80 and sides:
            ops.append(["cmd", "ifchange", [_pick(draw, sides), top] if draw(st.integers(0, 1)) else [top] + sides, ""])
        elif k < 90:
            ops.append(["cmd", "ifchange", [_pick(draw, targets[1:])], ""])
            ops.append(["cmd", "ifchange", [top], ""])
        else:
            ops.append(["rmtarget", _pick(draw, targets[:-1])])
            ops.append(["cmd", "ifchange", [top], ""])
    proj = {"dirs": [""], "sources": sources, "dofiles": dofiles, "targets": targets + sides, "watch": ["w0", "w1"]}
    return {"project": proj, "cfg": {"log": draw(st.integers(0, 1)), "keep_going": 0}, "ops": ops}


@st.composite
def check_then_fail(draw, o=None):
    """Directed family (C05): within ONE run a target t is first verified clean (a dependent p is checked), then
    force-rebuilt and fails (its script fails while a harness flag exists; the old file stays), then another dependent q
    is requested.  A driver script does the three steps, remembering each status and exiting non-zero at the end
    (it does not swallow the failure)."""
    nq = draw(st.integers(1, 2))
    dof = {"t.do": {"v": 1, "body": [["dep", 1, ["s0"]], ["failflag", "t", 3], ["out", draw(st.sampled_from(["stdout", "file"]))]]},
           "p.do": {"v": 1, "body": [["dep", 1, ["t"]], ["out", "stdout"]]}}
    if draw(st.integers(0, 3)) == 0:
        dof["t.do"]["body"].append(["stamp"])
    qs = []
    for i in range(nq):
        q = "q%d" % i
        dof[q + ".do"] = {"v": 1, "body": [["dep", 1, ["t"] if i == 0 or draw(st.integers(0, 1)) else [qs[-1]]],
                                           ["out", "stdout"]]}
        qs.append(q)
    steps = [["softdep", 1, ["p"]], ["softredo", ["t"]], ["softdep", 1, [qs[-1]]]]
    if draw(st.integers(0, 3)) == 0:
        steps.insert(2, ["softdep", 1, ["p"]])      # the dependent that was verified before is asked for again
    dof["drv.do"] = {"v": 1, "body": steps + [["out", "stdout"]]}
    targets = ["t", "p"] + qs + ["drv"]
    ops = [["cmd", "ifchange", ["p"] + qs, ""]]
    if draw(st.integers(0, 1)):
        ops.append(["edit", "s0", draw(st.integers(0, 2))])
        ops.append(["cmd", "ifchange", ["p"] + qs, ""])
    ops.append(["failflag", "t", 1])
    ops.append(["cmd", draw(st.sampled_from(["ifchange", "redo"])), ["drv"], ""])
    ops.append(["cmd", "ifchange", [qs[-1]], ""])
    if draw(st.integers(0, 1)):
        ops.append(["cmd", "ifchange", ["p"], ""])
    ops.append(["failflag", "t", 0])
    ops.append(["cmd", "ifchange", ["p"] + qs, ""])
    proj = {"dirs": [""], "sources": ["s0"], "dofiles": dof, "targets": targets, "watch": ["w0", "w1"]}
    return {"project": proj, "cfg": {"log": draw(st.integers(0, 1)), "keep_going": draw(st.integers(0, 1))}, "ops": ops}
