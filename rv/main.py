"""Entry point: ./check <Cxx> <quick|thorough> | --replay <file> | --setup"""
import importlib
import json
import os
import sys
import time

from . import engine, runner, sut

VERIF = engine.VERIF


def write_evidence(ev):
    import jsonschema
    os.makedirs(os.path.join(VERIF, "evidence"), exist_ok=True)
    path = os.path.join(VERIF, "evidence", ev["property_id"] + ".json")
    schema_path = "/root/.vp/EVIDENCE.schema.json"
    if not os.path.exists(schema_path):
        schema_path = os.path.join(VERIF, "schemas", "EVIDENCE.schema.json")
    with open(schema_path) as f:
        schema = json.load(f)
    tmp = path + ".tmp"
    with open(tmp, "w") as f:
        json.dump(ev, f, indent=1, sort_keys=True, default=str)
    with open(tmp) as f:
        jsonschema.validate(json.load(f), schema)
    os.replace(tmp, path)
    return path


def sane_signals():
    """The checks must not depend on how they were started: a non-interactive shell starts background jobs with
    SIGINT/SIGQUIT ignored (inherited by every script, so `kill -INT $$` in a generated .do would be a no-op), and
    a caller may have blocked signals. Everything the harness spawns starts from default dispositions."""
    import signal
    for s in (signal.SIGINT, signal.SIGQUIT, signal.SIGTERM, signal.SIGHUP, signal.SIGUSR1, signal.SIGUSR2,
              signal.SIGALRM, signal.SIGCHLD, signal.SIGTSTP, signal.SIGTTIN, signal.SIGTTOU):
        try:
            if signal.getsignal(s) == signal.SIG_IGN:
                # (a caught signal is reset to the default action in every exec'ed child)
                signal.signal(s, signal.default_int_handler if s == signal.SIGINT else signal.SIG_DFL)
        except (OSError, ValueError, RuntimeError):
            pass
    try:
        signal.pthread_sigmask(signal.SIG_SETMASK, set())
    except (OSError, ValueError):
        pass


def main(argv):
    sane_signals()
    if not argv:
        print(__doc__)
        return 2
    if argv[0] == "--setup":
        from . import setup
        return setup.main()
    try:
        sut.build()
    except sut.BuildError as e:
        sys.stderr.write("cannot build /repo: %s\n" % e)
        return 2
    if argv[0] == "--replay":
        path = argv[1]
        with open(path) as f:
            rp = json.load(f)
        prop = rp["property"]
        if isinstance(rp.get("case"), dict) and "fuzz" in rp["case"]:
            from . import fuzz
            ok, msg = fuzz.build()
            if not ok:
                print("inconclusive: fuzz targets do not build:", msg[-300:])
                return 2
            bad, text = fuzz.replay(rp["case"]["fuzz"], rp["case"]["input_hex"])
            print(text)
            if bad:
                print("VIOLATION property=%s replay=%s" % (prop, path))
                return 1
            print("replay: property held")
            return 0
        if isinstance(rp.get("case"), dict) and "inproc" in rp["case"]:
            from . import inproc
            ok, msg = inproc.build()
            if not ok:
                print("inconclusive: in-process crate does not build:", msg[-300:])
                return 2
            c = rp["case"]
            r = inproc.run(c.get("mode", c["inproc"]), c.get("n", 20000), c.get("seed", 0), *c.get("extra", []))
            for f in r["failures"]:
                print(f["detail"][:1500])
            if r["failures"]:
                print("VIOLATION property=%s replay=%s" % (prop, path))
                return 1
            print("replay: property held")
            return 0
        mod = importlib.import_module("rv.props." + prop.lower())
        n = int(os.environ.get("RV_REPLAY_TIMES", "1"))
        bad = 0
        for _ in range(n):
            try:
                spec = mod.spec_for(rp["case"]) if hasattr(mod, "spec_for") else mod.SPEC
                out = spec.run_case(rp["case"], "replay")
            except runner.Inconclusive as e:
                print("inconclusive:", e)
                return 2
            v = out.violation
            if v is not None:
                print(json.dumps(v, indent=1, default=str)[:6000])
                if v["property"] == prop:
                    k = engine.match_known(prop, v.get("sig", {}), engine.load_known())
                    if k is not None:
                        print("KNOWN-FINDING: property=%s %s (%s)" % (prop, k["what"], k["id"]))
                    else:
                        bad += 1
        if bad:
            print("VIOLATION property=%s replay=%s" % (prop, path))
            return 1
        print("replay: property held")
        return 0
    prop = argv[0].upper()
    tier = argv[1] if len(argv) > 1 else os.environ.get("VERIF_TIER", "quick")
    seed = int(os.environ.get("VERIF_SEED", "0") or 0)
    mod = importlib.import_module("rv.props." + prop.lower())
    if hasattr(mod, "run_check"):
        code, ev = mod.run_check(tier, seed)
    else:
        code, ev = engine.run_property("rv.props." + prop.lower(), tier, seed)
    try:
        write_evidence(ev)
    except Exception as e:
        sys.stderr.write("evidence not valid: %s\n" % str(e)[:500])
        if code == 0:
            code = 2
    print("%s %s seed=%d: exit %d, %d evaluations, %d distinct non-trivial, %.1fs" % (
        prop, tier, seed, code, ev["coverage"]["evaluations"], ev["coverage"]["distinct_nontrivial"], ev["wall_s"]))
    return code


if __name__ == "__main__":
    sys.exit(main(sys.argv[1:]))
