"""Engine H: interpret a generated history against the real binary and the reference model, serially (-j1)."""
import collections
import os
import posixpath
import shutil
import sqlite3

from . import model as M
from . import project as P
from . import runner


class Violation(Exception):
    def __init__(self, prop, clause, detail, sig=None):
        Exception.__init__(self, "%s/%s" % (prop, clause))
        self.prop = prop
        self.clause = clause
        self.detail = detail
        self.sig = sig or {}


class Outcome:
    def __init__(self):
        self.events = collections.Counter()
        self.nontrivial = False
        self.commands = 0
        self.scripts = 0
        self.violation = None   # dict
        self.diverged = None
        self.log = []           # per-step summary for the replay file


def scratch_root():
    base = "/dev/shm" if os.path.isdir("/dev/shm") and os.access("/dev/shm", os.W_OK) else \
        os.environ.get("TMPDIR", "/tmp")
    return os.path.join(base, "rv-%d" % os.getpid())


def scratch_dir(tag):
    d = os.path.join(scratch_root(), tag)
    shutil.rmtree(d, ignore_errors=True)
    os.makedirs(d)
    return d


def cleanup_scratch():
    shutil.rmtree(scratch_root(), ignore_errors=True)


def spell(t, cwd):
    return posixpath.relpath(t, cwd or ".")


def parse_trace(lines):
    """-> (executed list, calls [(target, rc, kind)], args {target: (a1,a2,a3,pwd)}, exits {target: rc})"""
    ex, calls, args, exits = [], [], {}, {}
    for l in lines:
        f = l.split("|")
        if f[0] == "S":
            ex.append(f[1])
        elif f[0] == "R":
            calls.append((f[1], int(f[2]), f[3]))
        elif f[0] == "A":
            args[f[1]] = (f[2], f[3], f[4], f[5])
        elif f[0] == "X":
            exits[f[1]] = int(f[2])
    return ex, calls, args, exits


def db_rows(disk):
    p = os.path.join(disk.root, ".redo", "db.sqlite3")
    if not os.path.exists(p):
        return [], []
    con = sqlite3.connect("file:%s?mode=ro" % p, uri=True, timeout=5)
    try:
        files = con.execute("select rowid,name,is_generated,is_override,checked_runid,changed_runid,"
                            "failed_runid,stamp,csum from Files").fetchall()
        deps = con.execute("select target,source,mode,delete_me from Deps").fetchall()
    finally:
        con.close()
    return files, deps


def has_nested_csum(m):
    """True iff some checksummed rule has another checksummed rule in its dependency closure (D12 shape)."""
    def stamped(t):
        r = m.rule_for(t)
        rec = m.rec.get(t)
        # (a target whose rule stopped calling redo-stamp is still RECORDED as checksummed until it is built again)
        return (r is not None and any(s[0] in ("stamp", "stampif", "stampsrc", "stampgate") for s in m.dofiles[r[0]]["body"])) \
            or (rec is not None and rec.csum is not None)
    for t in m.targets:
        if stamped(t):
            for q in m.closure(t):
                if q != t and q in m.targets and stamped(q):
                    return True
    return False


class HistoryRunner:
    """Runs one case. Subclasses / callers plug in oracle clauses via `checks` (a set of names)."""

    def __init__(self, case, checks, tag="h"):
        self.case = case
        self.checks = checks
        self.out = Outcome()
        self.disk = P.Disk(scratch_dir(tag))
        self.m = M.Model(case["project"], keep_going=bool(case["cfg"].get("keep_going")))
        self.disk.materialize(case["project"])
        self.variants = collections.Counter()
        self.max_variant = {}
        self.changed_since_cmd = False
        self.user_kind = {}
        self.role_changes = collections.Counter()
        self.pending_changes = set()   # kinds of changes since the last successful command
        self.env = {}
        if not case["cfg"].get("log", 1):
            self.env["REDO_LOG"] = "0"
        if case["cfg"].get("keep_going"):
            self.env["REDO_KEEP_GOING"] = "1"
        for fl in case["cfg"].get("stampflags_on", []):
            self.disk.set_stampflag(fl, True)
            self.m.stampflags.add(fl)
        self._mods_this_cmd = []
        self.step = 0
        self.ustat = {}
        for pth, f in self.m.fs.items():
            if f.owner == "user":
                self.note_user(pth)

    def note_user(self, p):
        try:
            st = os.lstat(self.disk.abspath(p))
            self.ustat[p] = (st.st_ino, st.st_mtime_ns, st.st_size)
        except FileNotFoundError:
            self.ustat.pop(p, None)

    def close(self):
        shutil.rmtree(self.disk.base, ignore_errors=True)

    # -- helpers --
    def violate(self, prop, clause, detail, sig=None):
        raise Violation(prop, clause, detail, sig)

    def run(self):
        try:
            for i, op in enumerate(self.case["ops"]):
                self.step = i
                self.apply(op)
                if self.out.diverged:
                    break
        except Violation as v:
            prop, clause = v.prop, v.clause
            own = getattr(self, "own_prop", None)
            claims = set(getattr(self, "claims", ())) & set(self.pending_changes)
            if own and prop != own and prop in ("C01", "C02", "C05") and claims \
                    and not (v.sig or {}).get("nested_csum"):      # (the nested-checksum over-build is D12: C02/C03's)
                # the first command after a change of the kind this property is about went wrong (stale content,
                # wrong status, wrong set of scripts): that is this property's violation, whatever generic clause
                # noticed it first
                clause = "%s/%s-after-%s" % (prop, clause, "+".join(sorted(claims)))
                prop = own
                v.sig = dict(v.sig, via=v.prop)
            self.out.violation = {"property": prop, "clause": clause, "detail": v.detail, "sig": v.sig,
                                  "step": self.step}
        finally:
            self.close()
        return self.out

    def apply(self, op):
        k = op[0]
        m, disk = self.m, self.disk
        if k == "cmd":
            self.do_cmd(op[1], op[2], op[3])
        elif k == "edit":
            p = op[1]
            if p in m.fs and m.fs[p].owner == "user":
                if len(op) > 2:
                    nv = self.case["cfg"].get("nvariants", 3)
                    v = op[2] if op[2] != self.variants[p] else (op[2] + 1) % nv
                    if v < self.max_variant.get(p, 0):
                        self.pending_changes.add("edit-revert")
                    self.variants[p] = v
                else:
                    self.variants[p] += 1
                self.max_variant[p] = max(self.max_variant.get(p, 0), self.variants[p])
                data = P.source_content(p, self.variants[p])
                disk.write(p, data)
                m.user_write(p, data)
                self.pending_changes.add("edit")
        elif k == "touch":
            p = op[1]
            if p in m.fs and m.fs[p].owner == "user":
                disk.touch(p)
                m.user_touch(p)
                self.pending_changes.add("touch")
        elif k == "rmgendir":
            d = op[1]
            inside = [p for p in m.fs if p.startswith(d + "/")]
            if d not in m.missing_dirs and all(m.fs[p].owner == "redo" for p in inside):
                shutil.rmtree(disk.abspath(d), ignore_errors=True)
                for p in inside:
                    m.user_remove(p)
                m.missing_dirs.add(d)
                self.pending_changes.add("rmtarget")
                self.out.events["gendir:directory-of-generated-files-removed"] += 1
        elif k == "mkgendir":
            d = op[1]
            if d in m.missing_dirs:
                os.makedirs(disk.abspath(d), exist_ok=True)
                m.missing_dirs.discard(d)
                self.pending_changes.add("mkgendir")
                self.out.events["gendir:directory-created-again"] += 1
        elif k == "rmtarget":
            p = op[1]
            if p in m.fs and m.fs[p].owner == "redo":
                disk.remove(p)
                m.user_remove(p)
                self.pending_changes.add("rmtarget")
        elif k == "setdo":
            dof, spec = op[1], op[2]
            if any(f.data == M.DIRDATA and dof in [c[0] for c in P.do_candidates(pth)] for pth, f in m.fs.items()):
                return   # would turn an existing directory into a directory target
            new = dof not in m.dofiles
            disk.write(dof, P.render_do(dof, spec).encode(), fresh_inode=True)
            m.set_dofile(dof, spec)
            self.pending_changes.add("adddo" if new else "editdo")
        elif k == "rmdo":
            if op[1] in m.dofiles:
                disk.remove(op[1])
                m.remove_dofile(op[1])
                self.pending_changes.add("rmdo")
        elif k == "mkpath":
            p = op[1]
            dangling = self.__dict__.setdefault("dangling", set())
            if len(op) > 2 and op[2] == "dangling":
                # a symlink whose destination does not exist is put at the watched path: the path still does NOT exist
                # (every existence test follows links), so nothing may happen because of it
                if p not in m.fs and p not in dangling and m.rule_for(p) is None:
                    os.makedirs(os.path.dirname(disk.abspath(p)), exist_ok=True)
                    os.symlink("rv-no-such-destination", disk.abspath(p))
                    dangling.add(p)
                    self.out.events["c14:dangling-symlink-at-a-watched-path"] += 1
                return
            if p not in m.fs:
                dangling.discard(p)
                if os.path.islink(disk.abspath(p)):
                    os.unlink(disk.abspath(p))
                if len(op) > 2 and op[2] == "dir":
                    # the watched path comes into existence as a directory; a directory whose name is matched by
                    # a rule would be a directory *target* (kept out of the generators, DESIGN §5)
                    if m.rule_for(p) is not None:
                        return
                    disk.mkdir(p)
                    m.user_mkdir(p)
                    self.pending_changes.add("mkpath-dir")
                else:
                    data = P.source_content(p, 0)
                    disk.write(p, data)
                    m.user_write(p, data)
                self.pending_changes.add("mkpath")
        elif k == "rmpath":
            p = op[1]
            if p in self.__dict__.get("dangling", ()):
                os.unlink(disk.abspath(p))
                self.dangling.discard(p)
                return
            if p in m.fs and m.fs[p].owner == "user":
                disk.remove(p)
                m.user_remove(p)
                self.pending_changes.add("rmpath")
        elif k == "ext":
            disk.set_ext(op[1], op[2])
            m.ext[op[1]] = op[2]
        elif k == "failflag":
            disk.set_fail(op[1], bool(op[2]))
            if op[2]:
                m.failflags.add(op[1])
            else:
                m.failflags.discard(op[1])
            self.pending_changes.add("failflag")
        elif k == "stampflag":
            disk.set_stampflag(op[1], bool(op[2]))
            if op[2]:
                m.stampflags.add(op[1])
            else:
                m.stampflags.discard(op[1])
        elif k == "usermodflag":
            t = op[1]
            if t in m.targets:
                with open(os.path.join(disk.ctl, "usermod." + t.replace("/", "_")), "w"):
                    pass
                m.usermod_flags.add(t)
                self.pending_changes.add("usermod")
        elif k == "crash":
            self.do_crash(op[1], op[2], op[3], op[4], op[5])
        elif k == "query":
            self.do_query(op[1], op[2])
        elif k == "mwrite":
            self.manual(op[1], "write")
        elif k == "mreplace":
            self.manual(op[1], "replace")
        elif k == "mremove":
            self.manual(op[1], "remove")
        elif k == "msymlink":
            # the user replaces / creates the file as a SYMLINK to a regular file of their own
            pth = op[1]
            existed = pth in m.fs
            was_redo = existed and m.fs[pth].owner == "redo"
            disk.symlink(pth)
            m.user_write(pth, P.Disk.LINK_DATA)
            self.note_user(pth)
            self.user_kind[pth] = "symlink" + ("-after-generated" if was_redo else "")
            if was_redo or not existed:
                self.role_changes[pth] += 1
            self.pending_changes.add("mreplace" + ("-gen" if was_redo else ("-user" if existed else "-new")))
        else:
            raise ValueError(op)
        if k not in ("cmd", "query", "crash"):
            for pth in list(op[1:2]):
                if isinstance(pth, str):
                    if pth in m.fs and m.fs[pth].owner == "user":
                        self.note_user(pth)
                    else:
                        self.ustat.pop(pth, None)

    def manual(self, p, how):
        m, disk = self.m, self.disk
        if how == "remove":
            if p in m.fs:
                if m.fs[p].owner == "user":
                    self.role_changes[p] += 1
                disk.remove(p)
                m.user_remove(p)
                self.ustat.pop(p, None)
                self.pending_changes.add("mremove")
            return
        self.variants[p] += 1
        data = ("manual %s %d\n" % (p, self.variants[p])).encode()
        existed = p in m.fs
        if existed and (self.variants[p] + len(p)) % 2 == 0:
            # a hand edit that keeps the byte size (one character changed): only the mtime gives it away
            cur = disk.read(p)
            if cur:
                b0 = cur[:1]
                data = (b"#" if b0 != b"#" else b"%") + cur[1:]
                self.out.events["c11:hand-edit-keeps-the-size"] += 1
        was_redo = existed and m.fs[p].owner == "redo"
        disk.write(p, data, fresh_inode=(how == "replace"))
        m.user_write(p, data)
        self.note_user(p)
        self.user_kind[p] = ("replaced" if how == "replace" else "edited") + ("-after-generated" if was_redo else "")
        if was_redo or not existed:
            self.role_changes[p] += 1
        self.pending_changes.add("m" + how + ("-gen" if was_redo else ("-user" if existed else "-new")))

    # -- commands --
    def shim_env(self, n, victim):
        """Environment that makes the LD_PRELOAD shim (engine K) kill `victim` immediately before the n-th
        state-changing libc call issued by redo processes inside the project."""
        from . import sut
        disk = self.disk
        ctr = os.path.join(disk.ctl, "ctr")
        with open(ctr, "wb") as f:
            f.write(b"\0" * 4096)
        try:
            os.unlink(os.path.join(disk.ctl, "shimlog"))
        except FileNotFoundError:
            pass
        here = os.path.dirname(os.path.dirname(os.path.abspath(__file__)))
        return {"LD_PRELOAD": os.path.join(here, "shim", "verifshim.so"),
                "RV_SHIM_EXE": os.path.realpath(os.path.join(sut.BIN_DIR, "redo")), "RV_SHIM_CTR": ctr,
                "RV_SHIM_LOG": os.path.join(disk.ctl, "shimlog"), "RV_SHIM_ROOT": disk.root, "RV_SHIM_WRITES": "1",
                "RV_SHIM_KILL_AT": str(n), "RV_SHIM_VICTIM": victim}

    def do_crash(self, kind, targets, cwd, n, victim):
        """A build command during which a redo process (or the whole tree) is killed before its n-th state-changing
        call; then -- without any cleanup -- `redo-ifchange` of every target of the project (the recovery run), judged
        like any other command except that WHICH scripts it runs is not compared (that depends on how far the
        killed run got).  If n exceeds what the command issues, it is an ordinary command."""
        import copy
        snapshot = copy.deepcopy(self.m)
        pend = set(self.pending_changes)
        self._crash_env = self.shim_env(n, victim)
        self._crash_killed = False
        try:
            self.do_cmd(kind, targets, cwd)
        finally:
            self._crash_env = None
        if not self._crash_killed:
            self.out.events["crash:point-beyond-end(ordinary command)"] += 1
            return
        # the model has not seen the killed command
        self.m = snapshot
        self.pending_changes = pend | {"crash"}
        self.out.events["crash:killed-%s" % victim] += 1
        self._recovering = True
        try:
            self.do_cmd("ifchange", list(self.m.targets), "")
        finally:
            self._recovering = False
        last = self.out.log[-1] if self.out.log else {}
        if last.get("rc", 0) != 0 and not self.out.diverged:
            # the recovery stopped at a failing script (as it should): what the killed run had already finished
            # further down the list was never visited, so binary and model no longer describe the same state
            self.out.diverged = "crash-recovery-incomplete"
            self.out.events["crash:recovery-stopped-at-a-failing-script(case ends)"] += 1

    def do_cmd(self, kind, targets, cwd):
        m, disk = self.m, self.disk
        if not os.path.isdir(os.path.join(disk.root, ".redo")) and not getattr(self, "_allow_first_cwd", False):
            cwd = ""   # the first command decides where .redo lives
        self._allow_first_cwd = False
        if cwd and cwd in getattr(m, "missing_dirs", ()):
            cwd = ""   # nobody can stand in a directory that was removed
        if kind == "redo" and len(targets) > 1:
            # `redo X Y` with Y in X's closure is statement-silent (DESIGN §5): keep only independent targets
            keep = []
            for t in targets:
                if all(t not in m.closure(u) and u not in m.closure(t) for u in keep):
                    keep.append(t)
            targets = keep
        argv = ["redo" if kind == "redo" else "redo-ifchange"] + [spell(t, cwd) for t in targets]
        if getattr(self, "_spell_override", None):
            argv = argv[:1] + [self._spell_override]
        if getattr(self, "_argv_override", None):
            argv = list(self._argv_override)
        pre = {p: (f.data, f.ver, f.owner) for p, f in m.fs.items()}
        nested = has_nested_csum(m)
        self.pre_csum = {t: r.csum for t, r in m.rec.items()}
        n_mods = len(m.concurrent_mod)
        # what the single-round out-of-band settle of the implementation would execute (known finding D12, exactly)
        self._d12_ex = None
        if nested:
            try:
                self._d12_ex = m.single_round_outcomes(kind, targets)
            except RecursionError:
                self._d12_ex = None
        ok_model = m.cmd_redo(targets) if kind == "redo" else m.cmd_ifchange(targets)
        self._mods_this_cmd = m.concurrent_mod[n_mods:]
        for p_ in self._mods_this_cmd:
            self.user_kind[p_] = "replaced-while-building"
            self.out.events["c11:file-replaced-by-hand-while-its-build-ran"] += 1
        cenv = getattr(self, "_crash_env", None)
        res = runner.run_cmd(disk, argv, cwd=cwd, env_extra=dict(self.env, **cenv) if cenv else self.env)
        self.out.commands += 1
        if cenv:
            # did the kill happen? (the shim logs every numbered call; the victim dies before call n)
            try:
                with open(cenv["RV_SHIM_LOG"]) as f:
                    nums = [int(l.split(" ", 1)[0]) for l in f.read().split("\n") if l]
            except (OSError, ValueError):
                nums = []
            if nums and max(nums) >= int(cenv["RV_SHIM_KILL_AT"]):
                self._crash_killed = True
                # orphans of a killed redo (scripts, nested redo) may still be running: let them finish, then
                # make sure nothing is left
                import time
                t_end = time.time() + 8
                while time.time() < t_end and runner.session_pids(res.pid):
                    time.sleep(0.02)
                runner.kill_session(res.pid)
                disk.take_trace()
                self.out.log.append({"killed": argv, "cwd": cwd, "n": cenv["RV_SHIM_KILL_AT"],
                                     "victim": cenv["RV_SHIM_VICTIM"], "rc": res.rc})
                if res.rc == 0 and ok_model and "content" in self.checks and not res.timed_out:
                    # one redo process died, yet the command claims success: then what it was asked for must be
                    # right ("whenever redo-ifchange T exits 0 ...") -- the model has evaluated the complete command
                    self.out.events["crash:command-exited-0-although-a-redo-process-was-killed(contents judged)"] += 1
                    clos = set()
                    for t in targets:
                        clos |= set(q for q in m.closure(t) if q in m.targets)
                    bad = []
                    for p_ in sorted(clos):
                        f_ = m.fs.get(p_)
                        want = f_.data if f_ is not None else None
                        got = disk.read(p_)
                        if got != want:
                            bad.append({"path": p_, "got": _short(got), "want": _short(want)})
                    if bad:
                        c03 = "csum" in self.checks and m.oob_used
                        self.violate("C03" if c03 else "C01", "not-forwarded" if c03 else "stale-content",
                                     {"cmd": res.brief(), "bad": bad[:5], "killed_before_call": cenv["RV_SHIM_KILL_AT"],
                                                              "victim": cenv["RV_SHIM_VICTIM"]},
                                     {"symptom": "stale", "oob": bool(m.oob_used), "exit_0_with_killed_process": True})
                return
        lines = disk.take_trace()
        ex, calls, args, exits = parse_trace(lines)
        self.out.scripts += len(ex)
        step = {"argv": argv, "cwd": cwd, "rc": res.rc, "model_ok": ok_model, "executed": ex,
                "model_executed": list(m.executed)}
        self.out.log.append(step)
        if res.timed_out:
            if res.hang_proof:
                self.violate("C09", "hang", {"cmd": res.brief(), "proof": res.hang_proof},
                             {"symptom": "hang"})
            raise runner.Inconclusive("command timed out without no-progress proof: %r" % argv)
        text = res.text()
        ctx = {"cmd": res.brief(), "step": step, "nested_csum": nested}
        if getattr(self, "_recovering", False):
            ctx["recovery_after_kill"] = True
            if "you modified it" in text and not m.warned:
                # known finding D9 (C10): killed between renaming the new target into place and recording it ->
                # redo takes its own output for a hand-made file. Not this check's subject; the case ends here.
                self.out.diverged = "d9-window"
                self.out.events["crash:excluded(D9 window: rename not recorded)"] += 1
                return
        # --- universally applicable sanity: a panic is never acceptable (C09) ---
        if res.rc == 101 or "panicked at" in text:
            self.violate("C09", "panic", ctx, {"symptom": panic_sig(text)})
        ok_bin = (res.rc == 0)
        if ok_bin != ok_model:
            if "database is locked" in text or "SQLITE_BUSY" in text:
                self.violate("C16", "db-busy", ctx, {"symptom": "sqlite busy"})
            if ok_model and not ok_bin:
                # all needed scripts succeed according to the model, yet the command failed
                self.violate("C09", "spurious-failure", ctx, {"symptom": "exit %d" % res.rc})
            else:
                # model says failure, binary says success: failure not propagated (C05) unless nothing failed
                self.violate("C05", "failure-not-propagated", ctx, {"symptom": "exit 0"})
        self.check_cmd(kind, targets, cwd, res, ok_model, ex, calls, args, exits, pre, nested, ctx)
        for p_ in self._mods_this_cmd:
            self.note_user(p_)     # from now on inode and mtime of the hand-made file are watched too
        if ok_bin:
            self.pending_changes = set()

    def check_cmd(self, kind, targets, cwd, res, ok, ex, calls, args, exits, pre, nested, ctx):
        m, disk = self.m, self.disk
        ch = self.checks
        if getattr(self, "_recovering", False):
            # which scripts the recovery runs depends on how far the killed run got; D9's silent variant (a first
            # build's output taken for a source) is recognised by its database row
            ch = set(ch) - {"execset", "calls", "once", "csum", "ood-after-fail"}
            files, _ = db_rows(disk)
            gen = {r[1]: bool(r[2]) for r in files}
            frozen = [t for t in m.targets if m.fs.get(t) is not None and m.fs[t].owner == "redo"
                      and gen.get(t) is False]
            if frozen:
                self.out.diverged = "d9-window"
                self.out.events["crash:excluded(D9 window: output recorded as a source)"] += 1
                return
            ex = list(m.executed)          # nothing below may compare execution sets
            cex_override = True
        cex_override = getattr(self, "_recovering", False)
        ev = self.out.events
        cex, mex = collections.Counter(ex), collections.Counter(m.executed)
        if cex_override:
            cex = mex
        # an over-build is the known finding D12 iff the single-round settle predicts exactly the executed set
        d12x = getattr(self, "_d12_ex", None)
        self._d12 = bool(nested and d12x is not None and frozenset(cex.items()) in d12x and cex != mex)
        if nested and cex != mex and not (mex - cex):
            ev["d12:over-build-in-nested-checksum-project/%s" % ("explained-by-single-round-settle" if self._d12
                                                                  else "NOT-explained")] += 1
        if "csum" in ch:
            # C03's own clauses first, so that a change that is not forwarded is reported as that (and not only as
            # the stale content it causes)
            self.check_csum(targets, ok, ex, cex, mex, nested, ctx, final=False)
        # ---------- C11: files redo did not produce are untouched (bytes, inode, mtime) ----------
        if "userfiles" in ch:
            bad = []
            for p, f in m.fs.items():
                if f.owner != "user":
                    continue
                got = disk.read(p)
                try:
                    st = os.lstat(disk.abspath(p))
                    cur = (st.st_ino, st.st_mtime_ns, st.st_size)
                except FileNotFoundError:
                    cur = None
                if got != f.data or (p in self.ustat and cur != self.ustat[p]):
                    bad.append({"path": p, "got": _short(got), "want": _short(f.data), "stat": cur,
                                "stat_before": self.ustat.get(p)})
            if bad:
                self.violate("C11", "user-file-changed", dict(ctx, bad=bad), self.user_changed_sig(bad))
            text = res.text()
            for p in m.warned:
                ev["c11:override-warning-expected"] += 1
                if "you modified it" not in text or posixpath.basename(p) not in text:
                    self.violate("C11", "no-override-warning", dict(ctx, path=p), {"symptom": "no-warning"})
            for t in targets:
                f = m.fs.get(t)
                if f is not None and f.owner == "user":
                    self.out.nontrivial = True
                    ev["c11:build-requested-on-user-owned:" + self.user_kind.get(t, "never-generated")] += 1
                    if posixpath.dirname(m.rule_for(t)[0]) != posixpath.dirname(t) if m.rule_for(t) else False:
                        ev["c11:default-rule-in-parent-dir"] += 1
                    if self.role_changes[t] >= 2:
                        ev["c11:role-changed>=2"] += 1
        # ---------- C02 (and the properties that claim it): execution multiset, BEFORE the generic content oracle so
        # that a wrong set of executed scripts is reported as that and not only as the stale content it causes ----------
        if "execset" in ch:
            if cex != mex:
                extra = sorted((cex - mex).elements())
                missing = sorted((mex - cex).elements())
                prop = getattr(self, "execset_prop", "C02")
                if nested and not missing:
                    prop = "C02"   # the nested-checksum over-build (D12) is C02/C03's subject, nobody else's
                if not missing and getattr(self, "execset_extra_prop", None):
                    prop = self.execset_extra_prop   # an over-build is not this property's subject
                self.violate(prop, "exec-set", dict(ctx, extra=extra, missing=missing),
                             {"symptom": "extra" if extra and not missing else
                              ("missing" if missing and not extra else "both"),
                              "nested_csum": bool(self._d12 and not missing)})
            if self.pending_changes and mex and len(set(mex)) < len(m.targets):
                self.out.nontrivial = True
            if not self.pending_changes and not mex:
                ev["c02:repeat-runs-nothing"] += 1
            for c in self.pending_changes:
                ev["c02:after-" + c] += 1
        # ---------- C01: contents after a successful command ----------
        if ok and "content" in ch:
            memo = {}
            clos = set()
            for t in targets:
                clos |= m.closure(t)
            bad = []
            for p in sorted(clos):
                want = m.from_scratch(p, memo)
                if want is M.FAIL:
                    continue
                got = disk.read(p)
                if got != want:
                    bad.append({"path": p, "got": _short(got), "want": _short(want)})
            if bad:
                users = [b for b in bad if m.fs.get(b["path"]) is not None and m.fs[b["path"]].owner == "user"]
                if users:
                    # a wrong path is a file redo did not produce (or that was edited by hand since): it was
                    # overwritten or removed -- that is C11's subject, not staleness (whatever else is wrong, e.g.
                    # dependents that read the overwritten file, follows from it)
                    self.violate("C11", "user-file-changed", dict(ctx, bad=bad), self.user_changed_sig(users))
                self.violate("C01", "stale-content", dict(ctx, bad=bad),
                             {"symptom": "stale", "oob": m.oob_used})
            if self.pending_changes:
                self.out.nontrivial = True
                for c in self.pending_changes:
                    ev["c01:after-" + c] += 1
            if m.oob_used:
                ev["c01:oob"] += 1
            if "ood-after" in ch:
                q = runner.run_cmd(disk, ["redo-ood"], cwd="", env_extra=self.env)
                listed = set(l for l in q.out.decode("utf-8", "replace").split("\n") if l)
                # always-targets (and their dependents) are legitimately out of date again in the next run
                stale = sorted(p for p in clos if p in listed and not m.would_run_upper(p))
                if q.rc != 0 or stale:
                    self.violate("C01", "ood-lists-built", dict(ctx, ood=sorted(listed), rc=q.rc,
                                                                 err=q.err.decode("utf-8", "replace")[-500:]),
                                 {"symptom": "ood-after-success"})
        if cex != mex and "execset" not in ch and "csum" not in ch:
            # binary and model no longer agree on what ran; this property does not speak about that,
            # so the rest of the history cannot be judged against the model
            self.out.diverged = "exec-set"
            ev["diverged:exec-set"] += 1
            if nested and not (mex - cex):
                ev["diverged:nested-csum-overbuild"] += 1
            return
        # ---------- model file system must equal disk for all model-known paths (both directions) ----------
        if "fs" in ch:
            bad = []
            for p, f in m.fs.items():
                got = disk.read(p)
                if got != f.data:
                    bad.append({"path": p, "got": _short(got), "want": _short(f.data), "owner": f.owner})
            for p in m.targets:
                if p not in m.fs and disk.read(p) is not None:
                    bad.append({"path": p, "got": _short(disk.read(p)), "want": None})
            if bad:
                prop = "C11" if any(b.get("owner") == "user" for b in bad) else "C01"
                self.violate(prop, "fs-mismatch", dict(ctx, bad=bad), {"symptom": "fs-mismatch"})
        if "csum" in ch:
            self.check_csum(targets, ok, ex, cex, mex, nested, ctx)
        if "calls" in ch:
            got = collections.Counter((t, k, rc == 0) for (t, rc, k) in calls)
            want = collections.Counter(m.calls)
            if got != want:
                self.violate("C05", "nested-status", dict(ctx, got=sorted(map(list, got.elements())),
                                                          want=sorted(map(list, want.elements()))),
                             {"symptom": "nested-status"})
        if "ood-after-fail" in ch and not ok:
            q = runner.run_cmd(disk, ["redo-ood"], cwd="", env_extra=self.env)
            listed = set(l for l in q.out.decode("utf-8", "replace").split("\n") if l)
            want = []
            for t in m.targets:
                r = m.rec.get(t)
                f = m.fs.get(t)
                if r is None or f is None or f.owner != "redo" or not r.gen:
                    continue
                if r.failed or any((m.rec.get(q2) is not None and m.rec[q2].failed and q2 in m.targets)
                                   for q2 in m.closure(t) if q2 != t) and t in targets:
                    want.append(t)
            missing = sorted(t for t in want if t not in listed)
            if q.rc != 0 or missing:
                self.violate("C05", "failed-not-ood", dict(ctx, ood=sorted(listed), missing=missing, rc=q.rc),
                             {"symptom": "failed-not-ood"})
            ev["c05:ood-checked-after-failure"] += 1
        if "once" in ch:
            dup = [t for t, n in cex.items() if n > 1]
            if dup:
                self.violate(getattr(self, "once_prop", "C07"), "twice-in-run", dict(ctx, dup=dup),
                             {"symptom": "twice"})
        if "stray" in ch:
            s = disk.stray_files()
            if s:
                self.violate("C04", "stray-tmp", dict(ctx, stray=s), {"symptom": "stray"})

    def user_changed_sig(self, bad):
        conc = [b["path"] for b in bad if b["path"] in self.m.concurrent_mod]
        if conc and len(conc) == len(bad):
            # the file was put there by hand WHILE a build of that name ran (redo cannot tell this from a script
            # writing $1): overwritten by that very command, or only by a later one?
            # (if one of them was replaced during an EARLIER command, that is known finding D28 at work -- redo took
            # the hand-made file for its own product and runs the script again -- and this command is off the model
            # from there on: "same command" only if every affected file was replaced during this very command)
            return {"symptom": "user-file-changed", "concurrent_mod": True,
                    "same_command": all(p_ in self._mods_this_cmd for p_ in conc)}
        return {"symptom": "user-file-changed"}

    def stamped(self, t):
        r = self.m.rule_for(t)
        return r is not None and any(s[0] in ("stamp", "stampif", "stampsrc") for s in self.m.dofiles[r[0]]["body"])

    def depth_to(self, roots, c):
        """Length of the shortest current-rule dependency path from any requested target to c."""
        m = self.m
        frontier = [(t, 0) for t in roots]
        seen = set(roots)
        while frontier:
            t, d = frontier.pop(0)
            if t == c:
                return d
            rule = m.rule_for(t)
            f = m.fs.get(t)
            if rule is None or (f is not None and f.owner == "user"):
                continue
            dof, dodir, a1, a2, _ = rule
            for stt in m.dofiles[dof]["body"]:
                qs = []
                if stt[0] in ("dep", "softdep"):
                    qs = stt[2]
                elif stt[0] == "depstem":
                    qs = [posixpath.normpath(posixpath.join(dodir, a2 + stt[2]))]
                elif stt[0] == "ifc" and m.exists(stt[1]):
                    qs = [stt[1]]
                for q in qs:
                    if q not in seen:
                        seen.add(q)
                        frontier.append((q, d + 1))
        return None

    def check_csum(self, targets, ok, ex, cex, mex, nested, ctx, final=True):
        m = self.m
        ev = self.out.events
        pre = self.pre_csum
        for c in sorted(set(ex)):
            if not self.stamped(c) or c not in mex:
                continue
            r = m.rec.get(c)
            # (a build that did not call redo-stamp -- a `stampif` rule whose flag is off -- always forwards)
            changed = (r is None) or r.csum is None or (r.csum != pre.get(c))
            strict = [t for t in targets if t != c and c in m.closure(t)]
            if strict and not final:
                self.out.nontrivial = True
                d = self.depth_to(strict, c)
                ev["c03:%s/depth%s/%s" % ("changed" if changed else "unchanged",
                                          "1" if d == 1 else ">=2", "oob" if m.oob_used else "inband")] += 1
            dependents = [d for d in m.targets if d != c and c in m.closure(d)]
            if not changed:
                # (a) stops: nothing that depends on c runs unless the model says it has another reason to
                extra = [d for d in (cex - mex).elements() if d in dependents]
                if extra:
                    self.violate("C03", "not-stopped", dict(ctx, csum_target=c, extra=sorted(extra)),
                                 {"symptom": "extra", "nested_csum": bool(getattr(self, "_d12", False))})
            elif ok:
                # (b) forwards: every *direct* dependent inside the requested closure ran in this very command
                # (a dependent behind another checksummed target may legitimately be cut off there), and so did
                # every indirect dependent the reference model says must run
                clos = set()
                for t in targets:
                    clos |= m.closure(t)
                direct = [d for d in dependents if self.depth_to([d], c) == 1]
                missing = [d for d in direct if d in clos and d not in cex]
                missing += [d for d in (mex - cex).elements() if d in dependents and d not in missing]
                if missing:
                    self.violate("C03", "not-forwarded", dict(ctx, csum_target=c, missing=sorted(missing)),
                                 {"symptom": "missing", "oob": m.oob_used})
        if not final:
            return
        if cex != mex:
            extra = sorted((cex - mex).elements())
            missing = sorted((mex - cex).elements())
            if extra and not missing and nested:
                self.violate("C03", "not-stopped", dict(ctx, extra=extra),
                             {"symptom": "extra", "nested_csum": bool(getattr(self, "_d12", False))})
            self.out.diverged = "exec-set"
            ev["diverged:exec-set"] += 1

    def do_query(self, which, cwd):
        m, disk = self.m, self.disk
        if not os.path.isdir(os.path.join(disk.root, ".redo")):
            return
        q = runner.run_cmd(disk, ["redo-" + which], cwd=cwd, env_extra=self.env)
        self.out.commands += 1
        lines = [l for l in q.out.decode("utf-8", "replace").split("\n") if l]
        listed = set(posixpath.normpath(posixpath.join(cwd, l)) for l in lines)
        ctx = {"cmd": q.brief(), "query": which, "cwd": cwd, "listed": sorted(listed)}
        self.out.log.append({"query": which, "cwd": cwd})
        if "query" not in self.checks:
            return
        ev = self.out.events
        if q.rc != 0:
            if "database is locked" in q.text():
                self.violate("C16", "db-busy", ctx, {"symptom": "sqlite busy"})
            self.violate("C17", "query-failed", ctx, {"symptom": "query exit %d" % q.rc})
        if len(lines) != len(set(lines)):
            self.violate("C17", "duplicate-lines", ctx, {"symptom": "duplicates"})
        known = {p: r for p, r in m.rec.items() if not p.startswith("//")}

        def untouched(p, r):
            return r.gen and not r.override and m.stamp(p) == r.out_ver
        want_t = set(p for p, r in known.items() if r.gen and (untouched(p, r) or p not in m.fs))
        want_s = set(p for p, r in known.items() if p in m.fs and not untouched(p, r))
        if which == "targets":
            if listed != want_t:
                self.violate("C17", "targets-listing", dict(ctx, want=sorted(want_t)),
                             {"symptom": "targets", "extra": bool(listed - want_t), "missing": bool(want_t - listed)})
            ev["c17:targets-query"] += 1
        elif which == "sources":
            # redo also knows .do candidates and paths outside our model (e.g. ../default.do above the root);
            # compare on the model-known paths and require everything else to exist and not be a target
            extra = listed - want_s
            bad_extra = [p for p in extra if p in want_t or disk.read(p) is None and not os.path.isdir(disk.abspath(p))]
            if (want_s - listed) or bad_extra:
                self.violate("C17", "sources-listing", dict(ctx, want=sorted(want_s), bad_extra=bad_extra),
                             {"symptom": "sources", "missing": bool(want_s - listed), "extra": bool(bad_extra)})
            ev["c17:sources-query"] += 1
        else:
            cand = sorted(want_t)
            lower = set(t for t in cand if m.would_run(t))
            upper = set(t for t in cand if m.would_run_upper(t))
            nested = has_nested_csum(m)
            if not (lower <= listed):
                self.violate("C17", "ood-misses-target", dict(ctx, lower=sorted(lower), upper=sorted(upper),
                                                               missing=sorted(lower - listed)),
                             {"symptom": "ood-missing"})
            if not (listed <= upper):
                self.violate("C17", "ood-lists-clean-target", dict(ctx, lower=sorted(lower), upper=sorted(upper),
                                                                    extra=sorted(listed - upper)),
                             {"symptom": "ood-extra", "nested_csum": bool(nested)})
            ev["c17:ood-query"] += 1
            if lower and (lower != upper or lower != set(cand)):
                self.out.nontrivial = True
                ev["c17:ood-nontrivial"] += 1
            if lower != upper:
                ev["c17:suspect-checksummed-present"] += 1
            if any(r.failed for r in known.values()):
                ev["c17:after-failure"] += 1
            if any(r.override for r in known.values()):
                ev["c17:after-override"] += 1
            if any(r.gen and p not in m.fs for p, r in known.items()):
                ev["c17:after-target-deletion"] += 1


def _short(b):
    if b is None:
        return None
    s = b.decode("utf-8", "replace")
    return s if len(s) < 400 else s[:400] + "..."


def panic_sig(text):
    """Normalised panic message: source file (no line numbers) + the message line."""
    import re
    mm = re.search(r"panicked at ([^\n]*)\n?([^\n]*)", text)
    if not mm:
        return "exit 101"
    loc, msg = mm.group(1), mm.group(2)
    loc = re.sub(r":\d+:\d+:?", "", loc).strip()
    if "', " in loc:   # old format: panicked at 'msg', file:line
        msg, _, loc = loc.rpartition("', ")
        msg = msg.lstrip("'")
    msg = re.sub(r"\d+", "N", msg).strip()
    return ("%s: %s" % (loc, msg))[:200]
