"""Build the system under test (the real `redo` binary) from /repo's working tree."""
import fcntl
import os
import shutil
import subprocess
import sys

VERIF = os.path.dirname(os.path.dirname(os.path.abspath(__file__)))
REPO = os.environ.get("RV_REPO", "/repo")
TARGET_DIR = os.path.join(VERIF, "target", "sut")
BIN_DIR = os.path.join(TARGET_DIR, "bin")
NAMES = ["redo-always", "redo-ifchange", "redo-ifcreate", "redo-log", "redo-ood", "redo-sources",
         "redo-stamp", "redo-targets", "redo-unlocked", "redo-whichdo"]


class BuildError(Exception):
    pass


def cargo_env():
    env = dict(os.environ)
    env["CARGO_NET_OFFLINE"] = "true"
    env["CARGO_TARGET_DIR"] = TARGET_DIR
    # make sure nothing of a surrounding redo run leaks into cargo/build scripts
    for k in list(env):
        if k.startswith("REDO") or k == "MAKEFLAGS":
            del env[k]
    return env


def build(quiet=True):
    """(Re)build `redo` from /repo's current working tree and refresh BIN_DIR. Returns BIN_DIR."""
    os.makedirs(TARGET_DIR, exist_ok=True)
    lock = open(os.path.join(TARGET_DIR, ".rv-build.lock"), "w")
    fcntl.flock(lock, fcntl.LOCK_EX)
    try:
        cmd = ["cargo", "build", "--offline", "--manifest-path", os.path.join(REPO, "Cargo.toml"),
               "--bin", "redo"]
        p = subprocess.run(cmd, env=cargo_env(), stdout=subprocess.PIPE, stderr=subprocess.STDOUT, text=True)
        if p.returncode != 0:
            sys.stderr.write(p.stdout[-4000:])
            raise BuildError("cargo build of /repo failed")
        src = os.path.join(TARGET_DIR, "debug", "redo")
        os.makedirs(BIN_DIR, exist_ok=True)
        dst = os.path.join(BIN_DIR, "redo")
        need = True
        try:
            s1, s2 = os.stat(src), os.stat(dst)
            need = not (s1.st_size == s2.st_size and int(s1.st_mtime) <= int(s2.st_mtime))
        except FileNotFoundError:
            pass
        if need:
            tmp = dst + ".new"
            shutil.copy2(src, tmp)
            os.replace(tmp, dst)
            os.utime(dst)
        for n in NAMES:
            l = os.path.join(BIN_DIR, n)
            if not os.path.islink(l):
                try:
                    os.unlink(l)
                except FileNotFoundError:
                    pass
                os.symlink("redo", l)
        return BIN_DIR
    finally:
        fcntl.flock(lock, fcntl.LOCK_UN)
        lock.close()


if __name__ == "__main__":
    print(build(quiet=False))
