"""Reference model R of redo's documented semantics (independent of the implementation's database design).

It tracks, per path redo has been told about, the *version of every dependency seen at its last build*
(the wording of C02), who produced the file that is currently there (C11), and interprets the script DSL
itself so that it can predict, for every command at -j1: exit status class, the multiset of executed
targets, the status of nested redo-* calls, and all file contents.
"""
import copy
import posixpath

from . import project as P

C, D = "C", "D"
MISSING = ("m",)
ALWAYS = "//ALWAYS"
FAIL = "<FAIL>"
DIRDATA = b"<dir>"     # "content" of a path that exists as a directory
DIRVER = ("dir",)      # redo gives every directory the same stamp: a directory never "changes"


def content_hash(data):
    if data is None:
        return "missing"
    return "dir" if data == DIRDATA else P.sha1(data)


class FileRec:
    __slots__ = ("data", "ver", "owner")

    def __init__(self, data, ver, owner):
        self.data = data
        self.ver = ver  # unique id of this (content, mtime, inode) incarnation
        self.owner = owner  # "user" | "redo"


class TRec:
    """What redo is entitled to remember about one path."""

    def __init__(self):
        self.built = False       # has a valid successful-build (or static) record
        self.failed = False      # last build failed / produced file vanished => must run again
        self.failed_run = None   # run in which it failed (never twice in one run)
        self.gen = False         # redo believes it generated the file
        self.override = False
        self.csum = None
        self.serial = None       # version of a plain generated target (changes at every successful build)
        self.cserial = None      # version of a checksummed target (changes whenever a build CHANGES the checksum --
                                 # also back to a value it had before: a dependent that only saw the old value is
                                 # still rebuilt, which is what "when its checksum does change" demands)
        self.out_ver = None      # FileRec.ver (or MISSING) of the file redo last recorded for this path
        self.deps = []           # [(mode, path, seen_version)]
        self.always = False
        self.done_run = None     # run in which it was built or found clean
        self.nested_csum = False
        self.kind = None         # "gen": last recorded as a redo product; "static": last recorded as a plain file


class Model:
    def __init__(self, proj, keep_going=False):
        self.fs = {}
        self.ext = {}
        self.failflags = set()
        self.stampflags = set()
        self.usermod_flags = set()
        self.missing_dirs = set()    # directories of generated-only files that the user removed (rm -rf build dir)
        self.concurrent_mod = []
        self.dofiles = {}
        self.rec = {}
        self.run = 0
        self.counter = 0
        self.keep_going = keep_going
        self.targets = list(proj.get("targets", []))
        for s in proj.get("sources", []):
            self.user_write(s, P.source_content(s, 0))
        for dof, spec in proj.get("dofiles", {}).items():
            self.set_dofile(dof, spec)
        # per-command outputs
        self.executed = []
        self.calls = []      # (target, kind, rc_is_zero)
        self.warned = []
        self.oob_used = False
        self.overbuild_possible = False

    # ---- harness-side mutations (mirrored on disk by the caller) ----
    def _next(self):
        self.counter += 1
        return self.counter

    def user_write(self, p, data):
        self.fs[p] = FileRec(data, self._next(), "user")

    def user_mkdir(self, p):
        self.fs[p] = FileRec(DIRDATA, DIRVER, "user")

    def user_touch(self, p):
        self.fs[p].ver = self._next()
        # touching a redo-produced file makes it user-modified as far as redo can tell
        self.fs[p].owner = "user"

    def user_remove(self, p):
        self.fs.pop(p, None)

    def set_dofile(self, dof, spec):
        self.dofiles[dof] = copy.deepcopy(spec)
        self.user_write(dof, P.render_do(dof, spec).encode())

    def remove_dofile(self, dof):
        self.dofiles.pop(dof, None)
        self.user_remove(dof)

    # ---- versions ----
    def exists(self, p):
        return p in self.fs

    def stamp(self, p):
        f = self.fs.get(p)
        return f.ver if f else MISSING

    def version(self, p):
        """Version of p as seen by dependents."""
        if p == ALWAYS:
            return ("always", self.run)
        r = self.rec.get(p)
        if r is None:
            return ("unknown",)
        if r.kind == "gen":
            # (a product whose file has vanished keeps its version: rebuilding it with the same checksum must
            # not disturb its dependents)
            if r.csum is not None:
                return ("c", r.cserial)
            return ("b", r.serial)
        return ("s", r.out_ver)

    def rule_for(self, t):
        """(dofile, dodir, arg1, arg2, higher_priority_absent_candidates) or None."""
        absent = []
        for cand, dodir, a1, a2 in P.do_candidates(t):
            if cand in self.fs:
                return cand, dodir, a1, a2, absent
            absent.append(cand)
        return None

    # ---- dirtiness ----
    def status(self, p, persist=True, stack=()):
        """C | D | ("U", frozenset) -- never executes anything. With persist=False nothing is remembered."""
        if p in stack:
            return D
        r = self.rec.get(p)
        if r is None:
            return D
        if r.failed or not r.built:
            return D
        if r.done_run == self.run and persist:
            return C
        if self.stamp(p) != r.out_ver:
            is_c = r.csum is not None
            if self.stamp(p) == MISSING and r.gen and persist:
                # a vanished product is forgotten as a target (role), it must be built (or supplied by hand)
                # again; the stamp mismatch keeps it dirty until then
                r.gen = False
            return ("U", frozenset([p])) if is_c else D
        acc = set()
        if r.gen and not r.override:
            for mode, q, seen in r.deps:
                if mode == "c":
                    sub = D if self.exists(q) else C
                elif q == ALWAYS:
                    sub = D
                else:
                    if self.version(q) != seen:
                        sub = D
                    else:
                        sub = self.status(q, persist, stack + (p,))
                if sub == D:
                    return ("U", frozenset([p])) if r.csum is not None else D
                if sub != C:
                    acc |= sub[1]
        if acc:
            return ("U", frozenset(acc))
        if persist:
            r.done_run = self.run
        return C

    def would_run(self, t):
        """Lower-bound oracle for redo-ood (C17): would `redo-ifchange t` execute t's script now?
        Evaluated on a copy so that nothing is remembered."""
        m = copy.deepcopy(self)
        m.run += 1
        m.executed = []
        m.ifchange(t)
        return t in m.executed

    def would_run_upper(self, t):
        """Upper-bound oracle for redo-ood: is t not clean when every uncertain checksum is assumed to change?"""
        m = copy.deepcopy(self)
        m.run += 1
        return m.status(t, persist=False) != C

    # ---- commands ----
    def begin_run(self):
        self.run += 1
        self.executed = []
        self.calls = []
        self.warned = []
        self.oob_used = False
        self.overbuild_possible = False

    def single_round_copy(self):
        """A copy that settles out of band the way the IMPLEMENTATION does (one round of redo-unlocked, whose second
        phase runs with REDO_NO_OOB and builds the target if it is still uncertain): used only to recognise the
        known finding D12 exactly -- an over-build is D12 iff this copy predicts precisely the executed set."""
        m = copy.deepcopy(self)
        m.single_round = True
        m.oob_choices = []
        m.oob_log = []
        return m

    def _oob_order(self, names):
        """The implementation hands the uncertain targets to redo-unlocked in HashSet order (arbitrary): every
        permutation is a possible behaviour; `oob_choices` selects one, `oob_log` records (taken, alternatives)."""
        import itertools
        perms = list(itertools.permutations(names)) if len(names) <= 4 else [tuple(names), tuple(reversed(names))]
        ch = getattr(self, "oob_choices", None)
        i = ch.pop(0) if ch else 0
        i = i if i < len(perms) else 0
        self.oob_log.append((i, len(perms)))
        return list(perms[i])

    def single_round_outcomes(self, kind, targets, limit=48):
        """All execution multisets the single-round settle can produce for this command (over the arbitrary orders
        in which uncertain targets are settled): set of frozenset(Counter.items())."""
        import collections
        results = set()
        stack = [[]]
        tried = 0
        while stack and tried < limit:
            prefix = stack.pop()
            tried += 1
            m1 = self.single_round_copy()
            m1.oob_choices = list(prefix)
            m1.oob_log = []
            m1.cmd_redo(targets) if kind == "redo" else m1.cmd_ifchange(targets)
            results.add(frozenset(collections.Counter(m1.executed).items()))
            taken = [t for t, _ in m1.oob_log]
            for i in range(len(prefix), len(m1.oob_log)):
                for alt in range(1, m1.oob_log[i][1]):
                    stack.append(taken[:i] + [alt])
        return results

    def cmd_ifchange(self, targets):
        """Top-level redo-ifchange at -j1, unshuffled. Returns True iff exit status is 0."""
        self.begin_run()
        return self._ifchange_list(targets)

    def cmd_redo(self, targets):
        self.begin_run()
        ok = True
        for t in _dedup(targets):
            rc = self.start_self(t)
            if rc != 0:
                ok = False
                if not self.keep_going:
                    break
        return ok

    def _ifchange_list(self, targets):
        ok = True
        for t in _dedup(targets):
            rc = self.ifchange(t)
            if rc != 0:
                ok = False
                if not self.keep_going:
                    break
        return ok

    def ifchange(self, p, no_oob=False):
        r = self.rec.get(p)
        if r is not None and r.failed_run == self.run:
            return 32
        if r is None:
            r = self.rec[p] = TRec()
        st = self.status(p)
        if st == C:
            return 0
        if getattr(self, "single_round", False):
            if st != D and st[1] != frozenset([p]) and not no_oob:
                self.oob_used = True
                for c in self._oob_order(sorted(st[1])):
                    rc = self.ifchange(c, no_oob=True)
                    if rc != 0:
                        return rc
                if self.status(p) == C:
                    return 0
            return self.start_self(p)
        if st != D and st[1] != frozenset([p]):
            # out of band: settle the uncertain checksummed targets first, then look again
            self.oob_used = True
            rounds = 0
            while st != C and st != D and st[1] != frozenset([p]):
                rounds += 1
                if rounds > 1:
                    # the implementation does a single round and then builds p regardless (D12);
                    # the ideal semantics keeps settling.  Remember that an over-build is possible.
                    self.overbuild_possible = True
                for c in sorted(st[1]):
                    rc = self.ifchange(c)
                    if rc != 0:
                        return rc
                st = self.status(p)
            if st == C:
                return 0
        return self.start_self(p)

    def start_self(self, p):
        r = self.rec.get(p)
        if r is None:
            r = self.rec[p] = TRec()
        f = self.fs.get(p)
        if r.gen and f is not None and (r.override or f.ver != r.out_ver):
            self.warned.append(p)
            r.kind = "static"
            r.override = True
            r.out_ver = f.ver
            r.failed = False
            r.failed_run = None
            r.built = True
        if f is not None and (r.override or not r.gen):
            if not r.override:
                r.gen = False
                r.kind = "static"
                r.out_ver = f.ver
                r.failed = False
                r.failed_run = None
                r.built = True
                r.csum = r.csum  # checksum of a former target is irrelevant for a static file
            r.done_run = self.run
            return 0
        rule = self.rule_for(p)
        if rule is None:
            # no rule and no file
            r.failed = True
            r.failed_run = self.run
            r.gen = False
            return 1
        return self.execute(p, rule)

    def execute(self, p, rule):
        dof, dodir, a1, a2, absent = rule
        r = self.rec[p]
        spec = self.dofiles[dof]
        self.executed.append(p)
        deps = [("c", c) for c in absent] + [("m", dof)]
        # the .do file itself becomes a static file known to redo
        dr = self.rec.get(dof)
        if dr is None:
            dr = self.rec[dof] = TRec()
        dr.gen = False
        dr.kind = "static"
        dr.override = False
        dr.built = True
        dr.failed = False
        dr.out_ver = self.stamp(dof)
        acc = "T %s %s v%d\n" % (p, dof, spec["v"])
        rc = 0
        out_mode = None
        stamped = False
        always = False
        soft = 0
        usermodded = False
        for st in spec["body"]:
            k = st[0]
            if k in ("dep", "softdep", "depstem"):
                if k == "depstem":
                    paths = [posixpath.normpath(posixpath.join(dodir, a2 + st[2]))]
                else:
                    paths = list(st[2])
                if not paths:
                    continue
                for q in paths:
                    deps.append(("m", q))
                ok = self._ifchange_list(paths)
                self.calls.append((p, "ifchange", ok))
                if not ok:
                    if k == "softdep":
                        soft = 1
                        continue
                    rc = 1
                    break
                if st[1] and k != "softdep":
                    for q in paths:
                        f = self.fs.get(q)
                        acc += "D %s %s\n" % (q, content_hash(f.data if f else None))
            elif k == "softredo":
                # `redo paths` from inside the script: forced, records no dependency, status remembered
                ok = True
                for q in st[1]:
                    if self.start_self(q) != 0:
                        ok = False
                        if not self.keep_going:
                            break
                self.calls.append((p, "redo", ok))
                if not ok:
                    soft = 1
            elif k == "ifc":
                q = st[1]
                if self.exists(q):
                    deps.append(("m", q))
                    ok = self._ifchange_list([q])
                    self.calls.append((p, "ifchange", ok))
                    if not ok:
                        rc = 1
                        break
                    if st[2]:
                        f = self.fs.get(q)
                        acc += "D %s %s\n" % (q, content_hash(f.data if f else None))
                    else:
                        acc += "I %s present\n" % q
                else:
                    deps.append(("c", q))
                    self.calls.append((p, "ifcreate", True))
                    acc += "I %s absent\n" % q
            elif k == "ifcreate_raw":
                q = st[1]
                if self.exists(q):
                    self.calls.append((p, "ifcreate", False))
                    rc = 1
                    break
                deps.append(("c", q))
                self.calls.append((p, "ifcreate", True))
            elif k == "always":
                always = True
                deps.append(("m", ALWAYS))
                self.calls.append((p, "always", True))
            elif k == "ext":
                acc += "X %s %s\n" % (st[1], self.ext.get(st[1], "none"))
            elif k == "failflag":
                if st[1] in self.failflags:
                    rc = st[2]
                    break
            elif k == "failflag_direct":
                if st[1] in self.failflags:
                    # the failing script has written its target itself: whatever is there now is the script's junk
                    self.fs[p] = FileRec(("scribble %s\n" % p).encode(), self._next(), "redo")
                    rc = st[2]
                    break
            elif k == "fail":
                rc = st[1]
                break
            elif k in ("work", "err", "sleep"):
                pass
            elif k == "usermod":
                if p in self.usermod_flags:
                    # the user replaces the target while it is being built: redo must leave that file alone and
                    # report the build as failed ("modified directly")
                    self.usermod_flags.discard(p)
                    self.user_write(p, ("concurrent %s\n" % p).encode())
                    self.concurrent_mod.append(p)
                    usermodded = True
            elif k == "out":
                out_mode = st[1]
                if out_mode == "file" and P.dirname(p) in self.missing_dirs:
                    rc = 2          # the script cannot create $3 in a directory that does not exist
                    break
            elif k in ("stamp", "stampgate"):
                stamped = True
            elif k == "stampif":
                stamped = st[1] in self.stampflags
            elif k == "stampsrc":
                f = self.fs.get(st[1])
                stamped = not (f is not None and f.data == P.source_content(st[1], 1))
            else:
                raise ValueError(st)
        if rc == 0 and out_mode == "stdout" and P.dirname(p) in self.missing_dirs:
            rc = 209                # the script succeeded but redo cannot put its output in place
        if rc == 0 and soft:
            rc = soft
        if rc == 0 and usermodded:
            rc = 206
        # record dependency edges (replace on success; on failure the re-declared ones are kept too, and the
        # target is dirty anyway)
        seen = []
        have = set()
        for mode, q in deps:
            if (q) in have:
                # insert-or-replace: the last declaration wins
                seen = [d for d in seen if d[1] != q]
            have.add(q)
            seen.append((mode, q, self.version(q) if mode == "m" else None))
        if rc != 0:
            r.failed = True
            r.failed_run = self.run
            r.gen = p in self.fs and self.fs[p].owner != "user"
            if r.gen:
                r.out_ver = self.fs[p].ver     # redo records the stamp of whatever the failed build left behind
            r.deps = seen
            return rc
        data = acc.encode()
        if out_mode is None:
            self.fs.pop(p, None)
            r.out_ver = MISSING
        else:
            self.fs[p] = FileRec(data, self._next(), "redo")
            r.out_ver = self.fs[p].ver
        r.gen = True
        r.kind = "gen"
        r.override = False
        r.failed = False
        r.failed_run = None
        r.built = True
        r.always = always
        r.done_run = self.run
        if stamped:
            cs = P.sha1(data)
            if cs != r.csum or r.cserial is None:
                r.cserial = self._next()
            r.csum = cs
        else:
            r.csum = None
            r.serial = self._next()
        # versions of dependencies as of completion
        r.deps = [(m, q, (self.version(q) if m == "m" else None)) for (m, q, _) in seen]
        return 0

    # ---- from-scratch oracle (C01) ----
    def from_scratch(self, p, memo=None, stack=()):
        """Bytes a clean build of the current sources/.do files/ext inputs would leave at p.
        None = builds fine but leaves no file; FAIL = not buildable / script would fail."""
        if memo is None:
            memo = {}
        if p in memo:
            return memo[p]
        if p in stack:
            return FAIL
        f = self.fs.get(p)
        if f is not None and f.owner == "user":
            memo[p] = f.data
            return f.data
        rule = self.rule_for(p)
        if rule is None:
            memo[p] = FAIL
            return FAIL
        dof, dodir, a1, a2, _ = rule
        spec = self.dofiles[dof]
        acc = "T %s %s v%d\n" % (p, dof, spec["v"])
        out_mode = None
        ok = True

        def h(d):
            return content_hash(d) if isinstance(d, bytes) else "missing"
        for st in spec["body"]:
            k = st[0]
            if k in ("dep", "depstem", "softdep"):
                paths = ([posixpath.normpath(posixpath.join(dodir, a2 + st[2]))] if k == "depstem" else st[2])
                for q in paths:
                    d = self.from_scratch(q, memo, stack + (p,))
                    if d is FAIL:
                        ok = False
                    elif st[1] and k != "softdep":
                        acc += "D %s %s\n" % (q, h(d))
            elif k == "ifc":
                q = st[1]
                if self.exists(q):
                    d = self.from_scratch(q, memo, stack + (p,))
                    if d is FAIL:
                        ok = False
                    elif st[2]:
                        acc += "D %s %s\n" % (q, h(d))
                    else:
                        acc += "I %s present\n" % q
                else:
                    acc += "I %s absent\n" % q
            elif k == "ifcreate_raw":
                if self.exists(st[1]):
                    ok = False
            elif k == "ext":
                acc += "X %s %s\n" % (st[1], self.ext.get(st[1], "none"))
            elif k in ("failflag", "failflag_direct"):
                if st[1] in self.failflags:
                    ok = False
            elif k == "fail":
                ok = False
            elif k == "out":
                out_mode = st[1]
            if not ok:
                break
        res = FAIL if not ok else (acc.encode() if out_mode is not None else None)
        memo[p] = res
        return res

    def closure(self, p, seen=None):
        """Current dependency closure of p (targets and sources), from the rules that would apply now."""
        if seen is None:
            seen = set()
        if p in seen:
            return seen
        seen.add(p)
        f = self.fs.get(p)
        if f is not None and f.owner == "user":
            return seen
        if f is None and p not in self.targets:
            return seen   # neither a file nor one of the project's targets: a leaf (e.g. an absent watched path)
        rule = self.rule_for(p)
        if rule is None:
            return seen
        dof, dodir, a1, a2, _ = rule
        for st in self.dofiles[dof]["body"]:
            if st[0] in ("dep", "softdep"):
                for q in st[2]:
                    self.closure(q, seen)
            elif st[0] == "depstem":
                self.closure(posixpath.normpath(posixpath.join(dodir, a2 + st[2])), seen)
            elif st[0] == "ifc" and self.exists(st[1]):
                self.closure(st[1], seen)
        return seen


def _dedup(xs):
    seen = set()
    out = []
    for x in xs:
        if x not in seen:
            seen.add(x)
            out.append(x)
    return out
