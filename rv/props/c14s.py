"""C14, parallel tier: redo-always targets requested by several dependents within one run at -j>1 (engine S).
Reuses C07's scenario machinery (serial/parallel differential under harness-owned schedules) on graphs dense in
redo-always leaves and mids; a violation that is about an always-target is C14's."""
from hypothesis import strategies as st

from .. import sgen
from . import c07


@st.composite
def cases(draw, tier):
    case = draw(c07.cases(tier, {"p_always": 55, "p_csum": 25, "p_gate": 60, "p_stem": 0, "p_postgate": 10,
                                 "max_leaf": 5, "max_mid": 5}))
    return case


def always_targets(case):
    return set(dof[:-3] for dof, spec in case["project"]["dofiles"].items()
               if any(s[0] == "always" for s in spec["body"]))


def run_case(case, tier):
    out = c07.run_case(case, tier)
    alw = always_targets(case)
    v = out.violation
    requested_twice = False
    reqs = {}
    for dof, spec in case["project"]["dofiles"].items():
        for stt in spec["body"]:
            if stt[0] == "dep":
                for q in stt[2]:
                    reqs[q] = reqs.get(q, 0) + 1
    if any(reqs.get(t, 0) >= 2 for t in alw):
        requested_twice = True
    jobs = 1
    for a in case["invs"][0]["argv"]:
        if a.startswith("-j"):
            jobs = int(a[2:])
    if case["invs"][0].get("jobserver"):
        jobs = 1 + case["invs"][0]["jobserver"]["tokens"]
    out.nontrivial = bool(requested_twice and jobs >= 2 and v is None and out.commands)
    out.events = type(out.events)({("c14s:" + k.split(":", 1)[1] if k.startswith("c07:") else k): n
                                   for k, n in out.events.items()})
    if requested_twice and jobs >= 2:
        out.events["c14s:always-target-with>=2-requesters-at-j>=2"] += 1
    if v is not None and v["property"] == "C07":
        d = v.get("detail", {})
        involved = set(d.get("dup", [])) | set(d.get("rebuilt", [])) | set(d.get("model", []))
        if v["clause"] in ("twice-in-run", "follow-up-build-not-clean", "executed-set-differs-from-serial") \
                and (involved & alw or v["clause"] == "executed-set-differs-from-serial"):
            v = dict(v, property="C14", clause="parallel/" + v["clause"], sig=dict(v["sig"], tier="parallel"))
            out.violation = v
    return out


class Spec:
    id = "C14"
    level = "exploration"
    rule = ("Parallel tier: layered graphs in which ~55% of the rules call redo-always (leaves and mids, some "
            "checksummed), built by one invocation at -j1..8 (or redo-ifchange under a harness jobserver) under a "
            "harness-owned schedule, first builds and rebuilds after an edit. Oracle (C07's differential, attributed to "
            "C14 when an always-target is involved): every always-target's script starts at most once in the run "
            "however many dependents request it; the executed set equals the serial model's; a following "
            "redo-ifchange runs exactly the always-targets (and their dependents) again. Non-trivial = an "
            "always-target with >= 2 requesters built at effective -j >= 2.")
    assumptions = ["see C07"]

    def accepts(self, case):
        return "invs" in case

    def cases(self, tier):
        return 240 if tier == "quick" else 2400

    def strategy(self, tier):
        return cases(tier)

    def run_case(self, case, tier):
        return run_case(case, tier)


SPEC = Spec()
