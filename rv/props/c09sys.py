"""C09, systematic tier: for small scenarios EVERY schedule is executed, where a schedule is a sequence of non-empty
subsets of the events that are ready at a quiescent point ({gated script k exits} + {a token arrives}), each subset
delivered inside one wake-up of the owning redo process (SIGSTOP, release, SIGCONT).  Stateless depth-first
enumeration: a schedule prefix is re-executed from scratch, the run stops at the first point where the prefix is
exhausted and reports the frontier there; the driver then extends the prefix by every non-empty subset."""
import itertools
import multiprocessing
import os
import re
import signal
import time

from .. import hist, runner, sched
from .c09 import BAD


def scenarios(tier, seed):
    """Small scenarios: n gated leaves, requested directly or through one nested redo-ifchange; own or inherited
    jobserver; log capture on/off."""
    out = []
    for n in (2, 3) if tier == "quick" else (2, 3, 4):
        leaves = ["l%d" % i for i in range(n)]
        for shape in ("direct", "nested"):
            for js in ("own", "inherited"):
                for log in (0, 1):
                    dof = {t + ".do": {"v": 1, "body": [["dep", 1, ["s0"]], ["work", 1], ["out", "stdout"]]}
                           for t in leaves}
                    targets = list(leaves)
                    if shape == "nested":
                        dof["m0.do"] = {"v": 1, "body": [["dep", 1, leaves], ["out", "stdout"]]}
                        targets = ["m0"]
                    env = {} if log else {"REDO_LOG": "0"}
                    if js == "own":
                        jobs = n if n < 4 else 3
                        inv = {"argv": ["redo", "-j%d" % jobs] + targets, "cwd": "", "env": env, "jobserver": None}
                        held = 0
                    else:
                        # the harness is the parent make: K tokens in the pipe at start, H more that "sibling jobs"
                        # return later -- each return is an event
                        inv = {"argv": ["redo-ifchange"] + targets, "cwd": "", "env": env,
                               "jobserver": {"tokens": 1, "held": 1 if n < 4 else 2, "high": True}}
                        held = inv["jobserver"]["held"]
                    proj = {"dirs": [""], "sources": ["s0"], "dofiles": dof, "targets": leaves + targets[len(leaves):]
                            if shape == "direct" else leaves + ["m0"], "watch": []}
                    out.append({"name": "%d-leaves/%s/%s-jobserver/log%d" % (n, shape, js, log), "project": proj,
                                "invs": [inv], "held": held})
    if tier == "quick":
        # a fixed-size, seed-dependent selection; thorough runs them all
        k = 6
        start = (seed * 5) % len(out)
        out = [out[(start + i * 3) % len(out)] for i in range(k)]
        uniq = []
        for s in out:
            if s["name"] not in [u["name"] for u in uniq]:
                uniq.append(s)
        out = uniq
    return out


class SysRunner(sched.SchedRunner):
    DEADLINE = 40.0

    def __init__(self, scn, prefix, tag):
        case = {"project": scn["project"], "invs": scn["invs"], "schedule": [],
                "sopts": {"coincide": True, "token_games": False, "patient": True}}
        sched.SchedRunner.__init__(self, case, tag)
        self.prefix = list(prefix)
        self.frontier = None
        self.fired = []

    def events(self):
        ev = [("exit", g.target, g) for g in sorted(self.pending_gates(), key=lambda g: (g.target, g.gid))]
        if self.jp and self.jp.held > 0:
            ev.append(("token", "", None))
        return ev

    def fire(self, chosen):
        gates = [e[2] for e in chosen if e[0] == "exit"]
        token = any(e[0] == "token" for e in chosen)
        owners = sorted(set(g.ppid for g in gates if g.ppid))
        if token and not owners:
            # the token is for whoever waits for one: every redo process of the invocation sitting in pselect
            for p in self.live_pids():
                st_, sc, _, cmd = sched.proc_state(p)
                if cmd and cmd.startswith("redo") and cmd != "redo-log" and sc in ("270", "270t"):
                    owners.append(p)
        stopped = []
        for o in owners:
            try:
                os.kill(o, signal.SIGSTOP)
                stopped.append(o)
            except OSError:
                pass
        for g in gates:
            self.release_gate(g)
        for g in gates:
            self.wait_script_gone(g.pid)
        if token:
            self.jp.give(1)
        if len(chosen) >= 2:
            self.coincidences += 1
        self.fired.append([(e[0], e[1]) for e in chosen])
        for o in stopped:
            try:
                os.kill(o, signal.SIGCONT)
            except OSError:
                pass

    def run(self):
        t0 = time.time()
        self.start_inv(self.invs[0])
        step = 0
        while True:
            if time.time() - t0 > self.DEADLINE:
                self.deadline_hit = True
                break
            self.quiescent()
            self.reap()
            ev = self.events()
            alive = [i for i in self.invs if i.alive()]
            if not alive:
                break
            if not ev:
                if not self.wait_progress(alive):
                    break
                continue
            if step >= len(self.prefix):
                self.frontier = [(e[0], e[1]) for e in ev]
                break
            mask = self.prefix[step]
            chosen = [e for i, e in enumerate(ev) if mask & (1 << i)]
            if not chosen:
                chosen = ev[:1]
            self.fire(chosen)
            step += 1
        self.pump()
        self.reap()
        return self


def run_prefix(job):
    scn, prefix = job
    r = SysRunner(scn, prefix, tag="c09sys")
    res = {"scenario": scn["name"], "prefix": list(prefix), "frontier": None, "problem": None, "coinc": 0, "fired": []}
    try:
        r.run()
        res["fired"] = r.fired
        res["coinc"] = r.coincidences
        if r.frontier is not None:
            res["frontier"] = r.frontier
            return res
        if r.hang:
            res["problem"] = {"clause": "hang", "sig": {"symptom": "hang"}, "detail": {"proof": r.hang}}
            return res
        if getattr(r, "deadline_hit", False) or any(i.rc is None for i in r.invs):
            res["problem"] = "inconclusive"
            return res
        for inv in r.invs:
            text = r.inv_text(inv)
            m = BAD.search(text)
            if inv.rc == 101 or (m and ("panicked" in m.group(0) or "assertion" in m.group(0))):
                res["problem"] = {"clause": "panic", "sig": {"symptom": hist.panic_sig(text)},
                                  "detail": {"argv": inv.spec["argv"], "text": text[-2000:], "fired": r.fired}}
            elif m:
                res["problem"] = {"clause": "error", "sig": {"symptom": m.group(0)},
                                  "detail": {"argv": inv.spec["argv"], "text": text[-2000:], "fired": r.fired}}
            elif inv.rc != 0:
                res["problem"] = {"clause": "nonzero", "sig": {"symptom": "exit %d" % inv.rc},
                                  "detail": {"argv": inv.spec["argv"], "text": text[-2000:], "fired": r.fired}}
        return res
    except runner.Inconclusive:
        res["problem"] = "inconclusive"
        return res
    finally:
        r.close()
        hist.cleanup_scratch()


def run_case(case, tier):
    """Replay entry: one complete schedule of one scenario."""
    out = hist.Outcome()
    res = run_prefix((case["scenario"], case["prefix"]))
    if res["problem"] == "inconclusive":
        raise runner.Inconclusive("systematic schedule inconclusive")
    if res["problem"]:
        p = res["problem"]
        prop = "C09"
        if "database is locked" in p["sig"]["symptom"]:
            prop = "C16"
        elif "on exit: expected" in p["sig"]["symptom"]:
            prop = "C08"
        out.violation = {"property": prop, "clause": p["clause"], "step": 0, "detail": p["detail"], "sig": p["sig"]}
    out.nontrivial = res["coinc"] > 0
    return out


def explore(tier, seed, workers=16, max_schedules=None):
    """-> (complete schedule results, stats)"""
    scns = scenarios(tier, seed)
    ctx = multiprocessing.get_context("fork")
    stats = {"scenarios": {}, "schedules": 0, "with_coincidence": 0, "inconclusive": 0, "max_subset": 0,
             "prefix_runs": 0}
    problems = []
    samples = []
    with ctx.Pool(workers) as pool:
        level = [(s, ()) for s in scns]
        byname = {s["name"]: s for s in scns}
        while level:
            nxt = []
            stats["prefix_runs"] += len(level)
            for res in pool.imap_unordered(run_prefix, level, chunksize=1):
                name = res["scenario"]
                st_ = stats["scenarios"].setdefault(name, {"schedules": 0, "with_coincidence": 0, "truncated": False})
                if res["frontier"] is not None:
                    n = len(res["frontier"])
                    stats["max_subset"] = max(stats["max_subset"], n)
                    for mask in range(1, 1 << n):
                        nxt.append((byname[name], tuple(res["prefix"]) + (mask,)))
                    continue
                if res["problem"] == "inconclusive":
                    stats["inconclusive"] += 1
                    continue
                stats["schedules"] += 1
                st_["schedules"] += 1
                if res["coinc"]:
                    stats["with_coincidence"] += 1
                    st_["with_coincidence"] += 1
                    if len(samples) < 4 and stats["schedules"] % 17 == 3:
                        samples.append({"scenario": name, "schedule": res["fired"]})
                if res["problem"]:
                    problems.append(res)
            if max_schedules and stats["schedules"] + len(nxt) > max_schedules:
                # safety bound (never reached for the registered sizes): mark the enumeration as truncated
                for s, p in nxt[max_schedules:]:
                    stats["scenarios"][s["name"]]["truncated"] = True
                nxt = nxt[:max_schedules]
            level = nxt
    return problems, stats, samples
