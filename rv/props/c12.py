"""C12 - dependency cycles end in an error, never in a hang (engine S)."""
import os
import re

from hypothesis import strategies as st

from .. import hist, runner, sched, sgen


@st.composite
def cases(draw, tier):
    k = draw(st.integers(1, 5))
    cyc = ["c%d" % i for i in range(k)]
    dofiles = {}
    gate_p = draw(st.sampled_from([0, 50, 100]))
    for i, t in enumerate(cyc):
        body = []
        if draw(st.integers(0, 99)) < gate_p:
            body.append(["work", 0])
        deps = [cyc[(i + 1) % k]]
        if draw(st.integers(0, 3)) == 0:
            deps.insert(draw(st.integers(0, 1)), "s0")
        body.append(["dep", 1, deps])
        body.append(["out", "stdout"])
        if draw(st.integers(0, 99)) < 35:
            body.append(["stamp"])     # a checksummed member: dependents reach it through the out-of-band path
        dofiles[t + ".do"] = {"v": 1, "body": body}
    # "late" variant: the first build is acyclic (the member that closes the cycle depends on the source only);
    # then its .do is edited so that the cycle exists, and the command under test is a REBUILD
    late = None
    if draw(st.integers(0, 99)) < 50:
        closer = cyc[k - 1] + ".do"
        v2 = dofiles[closer]
        v1 = {"v": 1, "body": [stt if stt[0] != "dep" else ["dep", 1, ["s0"]] for stt in v2["body"]]}
        late = {"dofile": closer, "spec": dict(v2, v=2), "edit_source": draw(st.integers(0, 1)),
                # the first (acyclic) build may start at the cycle members themselves and also build 0-25 unrelated
                # targets, so that the entry targets of the run under test are NEW to the database and get ids far
                # above those of the cycle members (lock ids are compared textually in places)
                "pad": draw(st.integers(0, 30)), "prebuild_members": draw(st.integers(0, 2)) > 0}
    if late and draw(st.integers(0, 99)) < 35:
        # "flag" flavour: no .do is edited; the closing member asks for the first one only while a harness flag exists
        # (an input redo does not know), so after the flag appears NOTHING is out of date: only a forced run of that
        # member meets the cycle, and only through the RECORDED graph (every other member is clean, no script of
        # theirs runs)
        late["mode"] = "flag"
        late["prebuild_members"] = True
        late["edit_source"] = 0
    # acyclic prefix leading into the cycle, and acyclic siblings
    npre = draw(st.integers(0, 3))
    if late and late["prebuild_members"]:
        npre = max(1, npre)     # the run under test enters through a target the first build never saw
    pre = []
    nxt = cyc[draw(st.integers(0, k - 1))]
    for i in range(npre):
        t = "p%d" % i
        dofiles[t + ".do"] = {"v": 1, "body": [["dep", 1, [nxt]], ["out", "stdout"]]}
        pre.append(t)
        nxt = t
    sib = []
    for i in range(draw(st.integers(0, 2))):
        t = "q%d" % i
        body = [["dep", 1, ["s0"]]]
        if draw(st.integers(0, 1)):
            body.append(["work", 1])
        body.append(["out", "stdout"])
        dofiles[t + ".do"] = {"v": 1, "body": body}
        sib.append(t)
    second_entry = None
    if sib and draw(st.integers(0, 2)) == 0:
        # a sibling that also enters the cycle at another member
        t = "r0"
        dofiles[t + ".do"] = {"v": 1, "body": [["dep", 1, [sib[0], cyc[draw(st.integers(0, k - 1))]]],
                                               ["out", "stdout"]]}
        second_entry = t
    # "side loop": a cycle member asks, BEFORE the next member, for a target y0 that itself leads back to that member
    # (two overlapping cycles); with y0 also on the command line next to a cycle member at -j>=2, the member's
    # redo-ifchange can find y0 locked by the sibling branch while the NEXT name in its list is one of its own
    # ancestors -- which must be refused at once, not after waiting for y0
    side = None
    if k >= 2 and not late and draw(st.integers(0, 99)) < 20:
        i_ = draw(st.integers(0, k - 1))
        for stt in dofiles[cyc[i_] + ".do"]["body"]:
            if stt[0] == "dep" and cyc[(i_ + 1) % k] in stt[2]:
                stt[2].insert(stt[2].index(cyc[(i_ + 1) % k]), "y0")
        body = [["work", 0]] if draw(st.integers(0, 1)) else []
        dofiles["y0.do"] = {"v": 1, "body": body + [["dep", 1, [cyc[i_]]], ["out", "stdout"]]}
        side = "y0"
    entries_pool = cyc + pre + ([second_entry] if second_entry else [])
    n_entry = draw(st.sampled_from([1, 1, 1, 2, 2, 3]))
    entries = sgen._subset(draw, entries_pool, 1, n_entry)
    if late and late["prebuild_members"] and pre and draw(st.integers(0, 3)) > 0:
        entries = [pre[draw(st.integers(0, len(pre) - 1))]]
    if draw(st.integers(0, 2)) == 0 and sib:
        entries.insert(draw(st.integers(0, len(entries))), sib[0])
    if side:
        j_ = draw(st.integers(0, k - 1))
        entries = [cyc[j_], side] if draw(st.integers(0, 1)) else [side, cyc[j_]]
    kind = draw(st.sampled_from(["redo", "redo", "ifchange"]))
    if late and late.get("mode") == "flag":
        kind = "redo"
        entries = [cyc[k - 1]] + ([sib[0]] if sib and draw(st.integers(0, 2)) == 0 else [])
    jobs = draw(st.sampled_from([1, 1, 2, 3, 4]))
    # known finding D8 (two sibling jobs enter the cycle in parallel -> hang) costs ~15 s per case to prove:
    # keep that shape to a small share of the cases so that the search continues elsewhere
    def _reaches(t, seen):
        if t in cyc:
            return True
        if t in seen or t + ".do" not in dofiles:
            return False
        seen.add(t)
        return any(_reaches(q, seen) for stt in dofiles[t + ".do"]["body"] if stt[0] == "dep" for q in stt[2])
    if side:
        jobs = max(jobs, 2)
    d8_shape = jobs >= 2 and len([e for e in set(entries) if _reaches(e, set())]) >= 2
    excluded_d8 = False
    if d8_shape and draw(st.integers(0, 99)) >= (60 if side else 8):
        jobs = 1
        excluded_d8 = True
    env = {"REDO_LOG": "0"} if draw(st.integers(0, 1)) else {}
    if draw(st.integers(0, 3)) == 0:
        env["REDO_KEEP_GOING"] = "1"
    js = None
    if kind == "redo":
        argv = ["redo", "-j%d" % jobs] + entries
    else:
        argv = ["redo-ifchange"] + entries
        if jobs > 1:
            js = {"tokens": jobs - 1, "held": 0, "high": True}
    cyc_entries = [e for e in entries if e in cyc]
    pdof = dict(dofiles)
    if late and late.get("mode") == "flag":
        closing = [stt for stt in v2["body"] if stt[0] == "dep"][0]
        pdof[late["dofile"]] = {"v": 1, "body": [["dep", 1, ["s0"]]] + [
            (["depflag", "cyc", [cyc[0]]] if stt is closing else stt) for stt in v2["body"]]}
        late["spec"] = None
    elif late:
        pdof[late["dofile"]] = v1
    if late:
        for i in range(late["pad"]):
            pdof["z%d.do" % i] = {"v": 1, "body": [["dep", 1, ["s0"]], ["out", "stdout"]]}
    proj = {"dirs": [""], "sources": ["s0"], "dofiles": pdof, "targets": cyc + pre + sib + ([side] if side else []),
            "watch": []}
    return {"project": proj, "late": late, "invs": [{"argv": argv, "cwd": "", "env": env, "jobserver": js}], "cycle": cyc,
            "entries": entries, "jobs": jobs, "excluded_d8": excluded_d8, "parallel_entries_into_cycle": len(cyc_entries) >= 2 and jobs >= 2,
            "schedule": draw(sgen.schedule()), "sopts": {"seed": draw(st.integers(0, 2 ** 31 - 1)), "coincide": False, "token_games": False, "silence_s": 5.0,
                                                           "patient": draw(st.integers(0, 1)) == 1}}


def run_case(case, tier):
    out = hist.Outcome()
    r = sched.SchedRunner(case, tag="c12")
    try:
        late = case.get("late")
        if late:
            inv0 = case["invs"][0]
            first = hist.M._dedup(case["entries"])
            if late.get("prebuild_members"):
                first = [case["cycle"][0]]
            first = first + ["z%d" % i for i in range(late.get("pad", 0))]
            pre = runner.run_cmd(r.disk, ["redo-ifchange"] + first, env_extra=inv0["env"])
            r.disk.take_trace()
            if pre.rc != 0:
                raise runner.Inconclusive("acyclic first build failed: " + pre.text()[-300:])
            if late.get("mode") == "flag":
                with open(os.path.join(r.disk.ctl, "depflag.cyc"), "w") as f:
                    f.write("on\n")
                out.events["c12:cycle-closed-by-an-undeclared-input(flag), met through the recorded graph only"] += 1
            else:
                r.disk.write(late["dofile"], hist.P.render_do(late["dofile"], late["spec"]).encode(), fresh_inode=True)
            if late.get("edit_source"):
                r.disk.write("s0", hist.P.source_content("s0", 1))
            out.events["c12:cycle-introduced-by-edit-after-acyclic-build"] += 1
            if late.get("prebuild_members") and late.get("pad"):
                out.events["c12:entry-targets-new-to-a-populated-database"] += 1
        r.run()
        inv = r.invs[0]
        out.commands = 1
        out.scripts = sum(r.tl.starts.values())
        text = r.inv_text(inv)
        cyc = case["cycle"]
        started = [c for c in cyc if r.tl.starts.get(c)]
        entered = len(started) >= min(2, len(cyc))
        if late and late.get("mode") == "flag" and cyc[-1] in started:
            entered = True      # the closing member ran and asked for a member whose recorded dependencies lead back
        ev = out.events
        if case.get("excluded_d8"):
            ev["c12:excluded-by-construction(D8 shape forced to -j1)"] += 1
        if entered:
            out.nontrivial = True
            ev["c12:cycle-length-%d" % len(cyc)] += 1
            if case["jobs"] >= 2:
                ev["c12:parallel"] += 1
            if case["parallel_entries_into_cycle"]:
                ev["c12:>=2-cycle-members-on-command-line-parallel"] += 1
        # how many command-line entries lead into the cycle (sibling jobs of one redo process entering it)
        dofs = dict(case["project"]["dofiles"])
        if late and late.get("spec"):
            dofs[late["dofile"]] = late["spec"]
        if late and any(stt[0] == "stamp" for c in cyc for stt in dofs[c + ".do"]["body"]):
            ev["c12:late-cycle-with-checksummed-member"] += 1

        def reaches(t, seen=None):
            seen = seen or set()
            if t in cyc:
                return True
            if t in seen or t + ".do" not in dofs:
                return False
            seen.add(t)
            return any(reaches(q, seen) for stt in dofs[t + ".do"]["body"] if stt[0] == "dep" for q in stt[2])
        n_reach = len([e for e in hist.M._dedup(case["entries"]) if reaches(e)])
        sig_shape = {"entries_reaching_cycle": ">=2" if n_reach >= 2 else str(n_reach),
                     "parallel": case["jobs"] >= 2, "self_loop": len(cyc) == 1, "late": bool(late)}
        ctx = {"argv": inv.spec["argv"], "rc": inv.rc, "env": inv.spec["env"], "text": text[-2500:],
               "decisions": r.tl.decisions[-30:], "starts": dict(r.tl.starts)}
        if r.hang:
            procs = [p for pr in r.hang["proof"] for p in pr["procs"]]
            waiters = [p for p in procs if (p.get("cmdline") or "").startswith("redo-ifchange")]
            in_lk = [p for p in waiters if (p.get("syscall") or "").startswith("72 ")]
            in_sel = [p for p in waiters if (p.get("syscall") or "").startswith("270 ")]
            # every nested redo-ifchange either waits for its own child job or sits in F_SETLKW, at least two in the latter
            all_setlkw = len(in_lk) >= 2 and len(in_lk) + len(in_sel) == len(waiters)
            # does some waiting redo-ifchange name a target that one of its own ANCESTORS is building?  That is the
            # plain case of the statement (must be refused at once); D8 is about siblings only
            bypid = {p.get("pid"): p for p in procs}

            def building(p):
                w = (p.get("cmdline") or "").split(" ")
                return w[3] if len(w) >= 4 and w[0] == "sh" and w[2].endswith(".do") else None
            asks_ancestor = False
            for p in waiters:
                args = set((p.get("cmdline") or "").split(" ")[1:])
                cur, hops = bypid.get(p.get("ppid")), 0
                while cur is not None and hops < 60:
                    if building(cur) in args:
                        asks_ancestor = True
                    cur, hops = bypid.get(cur.get("ppid")), hops + 1
            out.violation = {"property": "C12", "clause": "hang", "step": 0, "detail": dict(ctx, proof=r.hang),
                             "sig": dict(sig_shape, symptom="hang", nested_waiters_all_in_F_SETLKW=all_setlkw,
                                         waiter_requests_an_ancestor=asks_ancestor)}
            return out
        if getattr(r, "deadline_hit", False) or inv.rc is None:
            raise runner.Inconclusive("deadline without no-progress proof")
        if inv.rc == 0:
            out.violation = {"property": "C12", "clause": "exit-0", "step": 0, "detail": ctx,
                             "sig": dict(sig_shape, symptom="exit 0")}
            return out
        identified = ("cyclic dependency" in text) or re.search(r"done:\d+:[0-9.]+@@ 208 ", text) or inv.rc == 208 \
            or re.search(r"exit code 208|\b208\b", text)
        if inv.rc == 101 or "panicked at" in text:
            out.violation = {"property": "C12", "clause": "abort-instead-of-cycle-error", "step": 0, "detail": ctx,
                             "sig": dict(sig_shape, symptom=hist.panic_sig(text))}
            return out
        if not identified and any(n >= 2 for n in r.tl.starts.values()):
            # `redo X Y` with Y in X's closure builds Y twice (statement-silent shape, DESIGN section 5): the second
            # build replaces Y's log, and with it the record of the cycle found during the first one, possibly before
            # the log viewer got there.  The invocation did fail; what it printed is not judged in this shape.
            ev["c12:cycle-report-not-judged(a target was built twice: redo X Y with Y below X)"] += 1
        elif not identified:
            out.violation = {"property": "C12", "clause": "cycle-not-identified", "step": 0, "detail": ctx,
                             "sig": dict(sig_shape, symptom="not-identified")}
        return out
    finally:
        r.close()


class Spec:
    id = "C12"
    level = "exploration"
    rule = ("Graphs with a dependency cycle of length 1-5 (members optionally gated), an acyclic prefix of 0-3 targets "
            "leading into it, 0-2 acyclic siblings and optionally a sibling that enters the cycle at another member; "
            "entry targets: any 1-3 of cycle members / prefix / second entry (siblings mixed in), redo -j1..4 or "
            "redo-ifchange (with a harness jobserver for -j>1), keep-going and log capture on/off; harness-owned "
            "schedule. Oracle: the invocation terminates (a hang is reported only with the no-progress proof), exits "
            "non-zero, does not abort on an assertion, and the cycle is identified (status 208 or the words "
            "'cyclic dependency' in its output). Non-trivial = the cycle was really entered (>= 2 members started, "
            "or the self-loop member started).")
    assumptions = ["termination is judged as bounded (60 s) + zero-CPU proof; a livelock that burns CPU is inconclusive"]

    def cases(self, tier):
        return 400 if tier == "quick" else 4000

    def strategy(self, tier):
        return cases(tier)

    def run_case(self, case, tier):
        return run_case(case, tier)


SPEC = Spec()
