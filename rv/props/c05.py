"""C05 - failures propagate, are remembered as dirty, and are retried next run (engine H at -j1 + gated cases)."""
from .. import gen, hist


class Runner(hist.HistoryRunner):
    execset_prop = "C05"
    once_prop = "C05"

    def check_cmd(self, kind, targets, cwd, res, ok, ex, calls, args, exits, pre, nested, ctx):
        m = self.m
        ev = self.out.events
        failed_now = [t for t in m.executed if m.rec[t].failed_run == m.run]
        if failed_now:
            self.out.nontrivial = True
            ev["c05:failure-reached"] += 1
            if m.keep_going:
                ev["c05:keep-going"] += 1
                if any(t not in m.closure(u) for u in targets for t in failed_now):
                    ev["c05:keep-going-with-independent-target"] += 1
            if len(targets) > 1:
                ev["c05:multi-target-command"] += 1
            if any(c[1] == "ifchange" and not c[2] for c in m.calls):
                ev["c05:nested-failure-status"] += 1
            if any(r.failed and r.built for r in m.rec.values()):
                ev["c05:later-rebuild-failure"] += 1
        if ok and "failflag" in self.pending_changes:
            ev["c05:success-after-flag-change"] += 1
        hist.HistoryRunner.check_cmd(self, kind, targets, cwd, res, ok, ex, calls, args, exits, pre, nested, ctx)


class Spec:
    id = "C05"
    level = "exploration"
    rule = ("Projects in which ~50% of the rules fail iff a harness-controlled flag file exists (the flag is not a "
            "dependency, so 'nothing else changed' is expressible), failure placed before/between/after the script's "
            "own redo-ifchange calls; histories toggling flags between commands (fail -> repeat unchanged -> repair -> "
            "edit), multi-target command lines, with and without REDO_KEEP_GOING, at -j1. Oracles per command: exit "
            "status class equals the model's (non-zero iff a needed script fails); status of every nested redo-ifchange "
            "recorded by the scripts equals the model's; no target executes twice in a run; the multiset of executed "
            "scripts equals the model's (=> retried next run although nothing changed, nothing started after the first "
            "known failure without keep-going, everything independent still built with keep-going); redo-ood lists "
            "previously built targets that failed or whose requested dependency failed; contents after a later "
            "successful command are from-scratch. Non-trivial = a failing script is actually reached; distinct = SHA-1 "
            "of the case JSON.")
    assumptions = ["-j1 (parallel clause checked by the gated scenarios of this module's schedule tier)",
                   "scripts propagate the status of a failing redo-ifchange (sh -e style)"]
    checks = {"execset", "calls", "once", "content", "ood-after-fail"}

    def accepts(self, case):
        return "ops" in case

    def cases(self, tier):
        return 1600 if tier == "quick" else 16000

    def strategy(self, tier):
        o = {"p_failflag": 50, "p_fail_direct": 30, "p_csum": 20, "keep_going": True, "max_cmd_targets": 3,
             "weights": {"cmd": 45, "failflag": 25, "edit": 12, "setdo": 4, "adddo": 1, "rmdo": 1, "rmtarget": 5,
                         "redo": 6, "mkpath": 2, "rmpath": 1, "ext": 1, "touch": 2}}
        if tier == "thorough":
            o.update(max_targets=12, max_ops=28)
        from hypothesis import strategies as st
        # + directed family: verified clean, then force-rebuilt and failed, then another dependent -- all in one run
        return st.one_of(gen.histories(o), gen.histories(o), gen.histories(o), gen.histories(o), gen.check_then_fail())

    def run_case(self, case, tier):
        return Runner(case, self.checks, tag="c05").run()


SPEC = Spec()


def spec_for(case):
    from . import c05s
    return c05s.SPEC if "invs" in case else SPEC


def run_check(tier, seed):
    from .. import engine
    code_h, ev_h = engine.run_property("rv.props.c05", tier, seed)
    code_s, ev_s = engine.run_property("rv.props.c05s", tier, seed)
    ev = engine.merge_evidence(ev_h, ev_s, "serial histories", "parallel scheduled scenarios")
    return max(code_h, code_s) if 1 not in (code_h, code_s) else 1, ev
