"""C15, contention tier (engine S): several spellings of one file on one command line WHILE another invocation holds
that file's lock.  The holder's script sits at a gate, so the measured command finds the target locked when it scans
its argument list; every spelling must still be recognised as the same file: one lock wait, one build."""
import os
import posixpath

from hypothesis import strategies as st

from .. import hist, sched, sgen
from . import c15
from .c09 import BAD


@st.composite
def cases(draw, tier):
    dirs = ["", "d1", "d1/d2", "e1"]
    tdir = dirs[draw(st.integers(0, 2))]
    t = posixpath.join(tdir, draw(st.sampled_from(["t", "t.x", "tü"])))
    u = posixpath.join(dirs[draw(st.integers(0, 2))], "u")
    dof = {}
    for x in (t, u):
        body = [["dep", 1, ["s0"]], ["work", 1], ["out", draw(st.sampled_from(["stdout", "file"]))]]
        if draw(st.integers(0, 3)) == 0:
            body.append(["stamp"])
        dof[x + ".do"] = {"v": 1, "body": body}
    dof["p.do"] = {"v": 1, "body": [["dep", 1, [t]], ["out", "stdout"]]}
    proj = {"dirs": dirs, "sources": ["s0"], "dofiles": dof, "targets": [t, u, "p"], "watch": [],
            "symlinks": {"ln1": "d1", "e1/ln2": "../d1"}}
    # the holder: started first, runs into the gate of t (and maybe u) and keeps the lock(s)
    hk = draw(st.integers(0, 3))
    holder = [["redo", t], ["redo-ifchange", t], ["redo", "-j2", t, u], ["redo-ifchange", "p"]][hk]
    # the measured command
    cwd = dirs[draw(st.integers(0, 3))]
    kind = draw(st.sampled_from(["redo", "redo", "ifchange"]))
    jobs = draw(st.sampled_from([1, 2, 3]))
    words = [("t", draw(st.integers(0, len(c15.STYLES) - 1))) for _ in range(draw(st.integers(2, 4)))]
    for _ in range(draw(st.integers(0, 2))):
        words.insert(draw(st.integers(0, len(words))), ("u", draw(st.integers(0, len(c15.STYLES) - 1))))
    env = {"REDO_LOG": "0"} if draw(st.integers(0, 1)) else {}
    return {"project": proj, "t": t, "u": u, "holder": holder, "cwd": cwd, "kind": kind, "jobs": jobs, "words": words,
            "env": env, "prebuild": draw(st.integers(0, 2)) == 0, "schedule": draw(sgen.schedule(12)),
            "sopts": {"seed": draw(st.integers(1, 2 ** 31 - 1)), "coincide": False, "token_games": False,
                      "patient": draw(st.integers(0, 2)) == 0, "start_first": True}}


def run_case(case, tier):
    out = hist.Outcome()
    t, u = case["t"], case["u"]
    # argv needs the scratch root (absolute spellings): build the runner first, then fill the invocations in
    case = dict(case, invs=[{"argv": case["holder"], "cwd": "", "env": {"REDO_LOG": "0"}, "jobserver": None},
                            {"argv": ["true"], "cwd": case["cwd"], "env": case["env"], "jobserver": None}])
    r = sched.SchedRunner(case, tag="c15s")
    try:
        for link, dest in case["project"]["symlinks"].items():
            os.symlink(dest, r.disk.abspath(link))
        names = {"t": t, "u": u}
        sps = [c15.spell(names[w], case["cwd"], s, r.disk.root) for w, s in case["words"]]
        argv = (["redo", "-j%d" % case["jobs"]] if case["kind"] == "redo" else ["redo-ifchange"]) + sps
        r.invs[1].spec["argv"] = argv
        if case.get("prebuild"):
            pr = hist.runner.run_cmd(r.disk, ["redo-ifchange", "p", u], env_extra={"REDO_LOG": "0"})
            if pr.rc != 0:
                raise hist.runner.Inconclusive("prebuild failed")
            r.disk.take_trace()
            r.disk.write("s0", hist.P.source_content("s0", 1))
            out.events["c15s:rebuild-after-edit"] += 1
        r.run()
        out.commands = 2
        out.scripts = sum(r.tl.starts.values())
        if r.hang:
            out.violation = {"property": "C09", "clause": "hang", "step": 0, "detail": {"proof": r.hang},
                             "sig": {"symptom": "hang"}}
            return out
        if getattr(r, "deadline_hit", False):
            raise hist.runner.Inconclusive("deadline")
        texts = [r.inv_text(i) for i in r.invs]
        meas = r.invs[1]
        ctx = {"invs": [i.spec["argv"] for i in r.invs], "cwd": case["cwd"], "rcs": [i.rc for i in r.invs],
               "decisions": r.tl.decisions[-30:], "events": [e[1:] for e in r.tl.ev[-40:]],
               "texts": [x[-1200:] for x in texts]}
        distinct_t = len({sp for sp, (w, _) in zip(sps, case["words"]) if w == "t"})
        held_t = t in case["holder"] or "p" in case["holder"]
        if distinct_t >= 2:
            out.events["c15s:>=2-spellings-of-a-target-locked-by-another-invocation"] += 1
            out.nontrivial = True
        import re
        if re.search(r"@@REDO:(?:locked|waiting)|\((?:locked|waiting)", texts[1]):
            out.events["c15s:measured-command-logged-a-lock-wait"] += 1
        if case["cwd"]:
            out.events["c15s:cwd-not-root"] += 1
        out.events["c15s:measured-%s-j%d" % (case["kind"], case["jobs"] if case["kind"] == "redo" else 1)] += 1
        mb = BAD.search(texts[1])
        if meas.rc == 101 or (mb and "panicked" in mb.group(0)):
            out.violation = {"property": "C15", "clause": "contended/aborted-on-two-spellings", "step": 0, "detail": ctx,
                             "sig": {"symptom": hist.panic_sig(texts[1]), "two_spellings": True, "tier": "contended"}}
            return out
        if any(i.rc != 0 for i in r.invs):
            out.violation = {"property": "C09", "clause": "spurious-failure", "step": 0, "detail": ctx,
                             "sig": {"symptom": "exit %s" % [i.rc for i in r.invs]}}
            return out
        # one build per file per command: scripts started directly by the measured top-level process
        mine = {}
        for seq, kind, target, pid, extra in r.tl.ev:
            if kind == "S" and extra == meas.proc.pid:
                mine[target] = mine.get(target, 0) + 1
        twice = {x: n for x, n in mine.items() if n > 1}
        if twice:
            out.violation = {"property": "C15", "clause": "contended/built-more-than-once-by-one-command", "step": 0,
                             "detail": dict(ctx, built_by_measured_command=mine),
                             "sig": {"symptom": "twice", "tier": "contended", "held": held_t}}
            return out
        if case["kind"] == "redo":
            missing = [x for x in {names[w] for w, _ in case["words"]} if mine.get(x, 0) != 1]
            if missing:
                out.violation = {"property": "C15", "clause": "contended/forced-target-not-built", "step": 0,
                                 "detail": dict(ctx, built_by_measured_command=mine, missing=missing),
                                 "sig": {"symptom": "not-built", "tier": "contended"}}
                return out
        if r.tl.overlaps:
            out.violation = {"property": "C06", "clause": "overlapping-executions", "step": 0,
                             "detail": dict(ctx, overlaps=r.tl.overlaps[:5]), "sig": {"symptom": "overlap"}}
            return out
        files, _ = hist.db_rows(r.disk)
        rows = [row[1] for row in files]
        bad = [n for n in rows if n != "//ALWAYS" and (posixpath.normpath(n) != n or n.startswith("ln1/")
                                                        or n.startswith("e1/ln2/") or n.startswith("/"))]
        dup = [n for n in set(rows) if rows.count(n) > 1]
        missing = [x for x in {names[w] for w, _ in case["words"]} if x not in rows]
        if bad or dup or missing:
            out.violation = {"property": "C15", "clause": "contended/db-records", "step": 0,
                             "detail": dict(ctx, bad=bad, dup=dup, missing=missing, names=sorted(rows)),
                             "sig": {"symptom": "db-name", "tier": "contended"}}
            return out
        return out
    finally:
        r.close()


class Spec:
    id = "C15"
    level = "exploration"
    rule = ("Contention tier: the C15 project (nested directories, two symlinked directories); a first invocation (redo / "
            "redo-ifchange of the target, of target and a second target, or of a parent) runs into the target's gated "
            "script and keeps its lock; the measured command -- `redo -j1..3` or redo-ifchange from a generated "
            "working directory, naming the target 2-4 times in generated spellings, interleaved with 0-2 spellings of "
            "the second target -- starts while the lock is held; the harness then releases the gates in a generated "
            "order (fresh build, or rebuild after an edit of the common source). Oracle: the measured command does "
            "not abort, both exit 0, the measured top-level process starts each file's script at most once (exactly "
            "once for `redo`), no two executions of one target overlap, one canonical Files row per file. "
            "Non-trivial = >= 2 distinct spellings of the contended file on the measured command line.")
    assumptions = ["see C15 (end-to-end half) and C06 (event order on the FIFO)"]

    def accepts(self, case):
        return "holder" in case

    def cases(self, tier):
        return 320 if tier == "quick" else 3200

    def strategy(self, tier):
        return cases(tier)

    def run_case(self, case, tier):
        return run_case(case, tier)


SPEC = Spec()
