"""C15 - every spelling of a path denotes the same target (in-process exhaustive/proptest + end-to-end)."""
import os
import posixpath
import time

from hypothesis import strategies as st

from .. import engine, hist, inproc
from .. import project as P

STYLES = ["rel", "dot", "dslash", "updown", "abs", "symlink", "symlink-abs", "link-dotdot"]


@st.composite
def cases(draw, tier):
    dirs = ["", "d1", "d1/d2", "e1"]
    tdir = dirs[draw(st.integers(0, 2))]
    name = draw(st.sampled_from(["t", "t.x", "na me", "tü"]))
    t = posixpath.join(tdir, name)
    other = posixpath.join(dirs[draw(st.integers(0, 3))], "u")
    src = "s0"
    body = [["dep", 1, [src]], ["out", draw(st.sampled_from(["stdout", "file"]))]]
    if draw(st.integers(0, 99)) < 45:
        body.append(["stamp"])
    dofiles = {t + ".do": {"v": 1, "body": body},
               other + ".do": {"v": 1, "body": [["dep", 1, [src]], ["out", "stdout"]]}}
    # a parent that names the target through its own spelling
    par = "p"
    dofiles[par + ".do"] = {"v": 1, "body": [["dep", 1, [t]], ["out", "stdout"]]}
    # ... and a grand-parent whose script changes its working directory before it asks for the parent:
    # ( cd <dir> && redo-ifchange <p as seen from there> ) -- the names it passes on are relative to THAT directory
    cddir = dirs[draw(st.integers(0, 3))]
    dofiles["pp.do"] = {"v": 1, "body": [["dep", 1, [par], {"cd": cddir}], ["out", "stdout"]]}
    ops = []
    for _ in range(draw(st.integers(2, 6))):
        k = draw(st.integers(0, 99))
        cwd = dirs[draw(st.integers(0, 3))]
        if k < 12:
            ops.append(["cdparent", draw(st.sampled_from(["redo", "redo", "ifchange"])), cwd])
            if draw(st.integers(0, 1)):
                # ... and again after an edit: with a checksummed target below, the parent is only MAYBE out of date
                # when the script (standing in another directory) asks for it -> out-of-band settle from there
                ops.append(["edit", src])
                ops.append(["cdparent", "redo", dirs[draw(st.integers(0, 3))]])
        elif k < 70:
            n = draw(st.integers(2, 4))
            styles = [draw(st.integers(0, len(STYLES) - 1)) for _ in range(n)]
            kind = draw(st.sampled_from(["redo", "ifchange"]))
            jobs = draw(st.sampled_from([1, 1, 2, 3, 4]))
            extra = draw(st.integers(0, 2))  # 0: only spellings of t; 1: also `other`; 2: also the parent p
            ops.append(["multi", kind, jobs, cwd, styles, extra])
        elif k < 85:
            ops.append(["edit", src])
        else:
            ops.append(["rmtarget", t])
    proj = {"dirs": dirs, "sources": [src], "dofiles": dofiles, "targets": [t, other, par, "pp"], "watch": [],
            "symlinks": {"ln1": "d1", "e1/ln2": "../d1"}}
    return {"project": proj, "cfg": {"log": draw(st.integers(0, 1)), "keep_going": 0}, "ops": ops}


def spell(t, cwd, style, root):
    rel = posixpath.relpath(t, cwd or ".")
    s = STYLES[style]
    if s == "dot":
        return "./" + rel
    if s == "dslash":
        return rel.replace("/", "//", 1) if "/" in rel else ".//" + rel
    if s == "updown":
        back = posixpath.relpath(".", cwd or ".")
        return posixpath.join(back, "e1", "..", t)
    if s == "link-dotdot":
        # up out of a symlinked directory whose destination has another parent than the link: e1/ln2 -> ../d1, so
        # e1/ln2/.. is the project root (NOT e1, which a purely lexical cleaning would make of it)
        back = posixpath.relpath(".", cwd or ".")
        return posixpath.join(back, "e1", "ln2", "..", t)
    if s == "abs":
        return os.path.join(root, t)
    if s in ("symlink", "symlink-abs"):
        if t.startswith("d1/"):
            via = "ln1/" + t[3:]
            if s == "symlink-abs":
                return os.path.join(root, "e1", "ln2", t[3:])
            return posixpath.relpath(via, cwd or ".")
        return rel
    return rel


class Runner(hist.HistoryRunner):
    execset_prop = "C15"
    once_prop = "C15"

    def __init__(self, case, checks, tag):
        hist.HistoryRunner.__init__(self, case, checks, tag)
        for link, dest in case["project"].get("symlinks", {}).items():
            os.symlink(dest, self.disk.abspath(link))

    def apply(self, op):
        if op[0] == "cdparent":
            # a forced (or checked) build of the grand-parent: its script calls redo-ifchange from another directory;
            # after an edit below a checksummed target that call takes the out-of-band path from there
            self.out.events["c15:redo-ifchange-called-by-a-script-after-cd"] += 1
            try:
                return self.do_cmd(op[1], ["pp"], op[2])
            except hist.Violation as v:
                if v.prop in ("C09", "C05", "C01", "C02"):
                    # the only special thing about this command is where the script stood when it named its dependency
                    raise hist.Violation("C15", "script-after-cd/%s-%s" % (v.prop, v.clause), v.detail,
                                         dict(v.sig or {}, after_cd=True))
                raise
        if op[0] != "multi":
            return hist.HistoryRunner.apply(self, op)
        _, kind, jobs, cwd, styles, extra = op
        m, disk = self.m, self.disk
        t, other, par = m.targets[:3]
        if not os.path.isdir(os.path.join(disk.root, ".redo")):
            # the first command decides where .redo lives: the common ancestor of the working directory and the
            # targets' directories.  From a sub-directory that is the project root only if a target in the root is
            # named by an ABSOLUTE path (relative spellings such as ../t are not cleaned first)
            if cwd and posixpath.dirname(t) == "" and any(STYLES[s] == "abs" for s in styles):
                self.out.events["c15:first-command-from-a-subdirectory-naming-a-root-target-absolutely"] += 1
                self._first_from_sub = True
            else:
                cwd = ""
        sps = [spell(t, cwd, s, disk.root) for s in styles]
        names = [t] * len(sps)
        if extra == 1:
            sps.insert(1, posixpath.relpath(other, cwd or "."))
            names.insert(1, other)
        elif extra == 2 and kind == "ifchange":
            sps.append(posixpath.relpath(par, cwd or "."))
            names.append(par)
        self._argv_override = (["redo", "-j%d" % jobs] if kind == "redo" else ["redo-ifchange"]) + sps
        distinct = len(set(sps[i] for i in range(len(sps)) if names[i] == t))
        ev = self.out.events
        if distinct >= 2:
            self.out.nontrivial = True
            ev["c15:>=2-spellings-one-command"] += 1
            if kind == "redo" and jobs >= 2:
                ev["c15:>=2-spellings-parallel"] += 1
        if any(STYLES[s].startswith("symlink") for s in styles) and t.startswith("d1/"):
            ev["c15:through-symlinked-directory"] += 1
        if cwd:
            ev["c15:cwd-not-root"] += 1
        try:
            if getattr(self, "_first_from_sub", False):
                self._first_from_sub = False
                self._allow_first_cwd = True
            self.do_cmd(kind, hist.M._dedup(names), cwd)
        except hist.Violation as v:
            if v.prop == "C09" and distinct >= 2:
                # two spellings of one file must be one lock and one build, not an abort
                raise hist.Violation("C15", "aborted-on-two-spellings", v.detail, dict(v.sig, two_spellings=True))
            raise
        finally:
            self._argv_override = None

    def check_cmd(self, kind, targets, cwd, res, ok, ex, calls, args, exits, pre, nested, ctx):
        hist.HistoryRunner.check_cmd(self, kind, targets, cwd, res, ok, ex, calls, args, exits, pre, nested, ctx)
        # exactly one database record per file, under its canonical project-relative name
        strays = [os.path.relpath(os.path.join(dp, ".redo"), self.disk.root) for dp, dns, _ in os.walk(self.disk.root)
                  if ".redo" in dns and dp != self.disk.root]
        if strays or not os.path.exists(os.path.join(self.disk.root, ".redo", "db.sqlite3")):
            self.violate("C15", "db-records", dict(ctx, state_directories_elsewhere=strays),
                         {"symptom": "db-location"})
        files, deps = hist.db_rows(self.disk)
        names = [r[1] for r in files]
        bad = [n for n in names if n != "//ALWAYS" and (posixpath.normpath(n) != n or n.startswith("ln1/")
                                                         or n.startswith("e1/ln2/") or n.startswith("/"))]
        dup = [n for n in set(names) if names.count(n) > 1]
        want = set(self.m.targets) & set(self.m.rec)
        missing = [t for t in want if t not in names]
        if bad or dup or missing:
            self.violate("C15", "db-records", dict(ctx, bad=bad, dup=dup, missing=missing, names=sorted(names)),
                         {"symptom": "db-name"})


class Spec:
    id = "C15"
    level = "exploration"
    rule = ("End-to-end half: a project with nested directories and two symlinked directories; one target spelled 2-4 "
            "ways (relative, ./, //, dir/../, absolute, through either symlinked directory) on one command line, "
            "optionally next to another target or to a parent that depends on it, `redo -j1..4` or redo-ifchange, from "
            "generated working directories, over several commands with edits in between. Oracles: the command exits "
            "0, the target's script runs exactly as often as the model says (once), contents are from-scratch, and "
            "the Files table holds exactly one row per file whose name is the canonical project-relative name. "
            "Non-trivial = >= 2 distinct spellings of one file in one command. In-process half: normpath on ALL "
            "strings over {/,.,a,b} up to length 9 (quick; 11 in thorough) against an independent cleanname, "
            "idempotence, shape invariants and the kernel (canonicalize in a tree without symlinks); proptest for "
            "longer/unicode strings; relpath re-join and two-spellings-agree in a tree with symlinked directories.")
    assumptions = ["base directories passed to relpath are what getcwd() returns (final component not a symlink)",
                   "no symlink loops"]
    checks = {"execset", "content", "once"}

    def accepts(self, case):
        return "holder" not in case

    def cases(self, tier):
        return 800 if tier == "quick" else 8000

    def strategy(self, tier):
        return cases(tier)

    def run_case(self, case, tier):
        return Runner(case, self.checks, tag="c15").run()


SPEC = Spec()


def spec_for(case):
    from . import c15s
    return c15s.SPEC if "holder" in case else SPEC


def run_check(tier, seed):
    t0 = time.time()
    ok, msg = inproc.build()
    parts = {}
    plan = {"exhaustive{/,.,a,b}": ("c15-exh", 9 if tier == "quick" else 11, ["/.ab"]),
            "exhaustive{/,.,a}": ("c15-exh", 11 if tier == "quick" else 14, ["/.a"]),
            "random": ("c15-rand", 50000 if tier == "quick" else 3000000, []),
            "relpath": ("c15-rel", 30000 if tier == "quick" else 1500000, [])}
    if ok:
        for name, (mode, n, extra) in plan.items():
            parts[name] = inproc.run(mode, n, seed, *extra)
    code, ev = engine.run_property("rv.props.c15", tier, seed)
    code_s, ev_s = engine.run_property("rv.props.c15s", tier, seed)
    ev = engine.merge_evidence(ev, ev_s, "serial histories", "spellings of a target that another invocation holds locked")
    code = 1 if 1 in (code, code_s) else max(code, code_s)
    cov = ev["coverage"]
    cov["inproc"] = {}
    for name, r in parts.items():
        cov["inproc"][name] = {k: r.get(k) for k in ("evaluations", "nontrivial", "classes", "samples", "exhaustive",
                                                     "nontrivial_total") if k in r}
        cov["evaluations"] += r["evaluations"]
        cov["distinct_nontrivial"] += r.get("nontrivial_total", r["nontrivial"])
        for f in r["failures"]:
            path = engine.write_replay("C15", {"inproc": name, "mode": plan[name][0], "n": plan[name][1],
                                               "extra": plan[name][2], "seed": seed, "failure": f}, f,
                                       prefix="fail-inproc")
            print("VIOLATION property=C15 replay=%s" % path)
            print("  " + f["detail"][:600])
            code = 1
            ev["violations"] += 1
    if not ok:
        cov["inproc"] = {"disabled": "in-process crate does not build against /repo: " + msg[-400:]}
    else:
        cov["exhaustive_note"] = "the two alphabet enumerations are complete up to their length bound"
    from .. import fuzz
    fv = []
    fcode = fuzz.campaign("C15", {"normpath": (400000, 8000000, 200)}, tier, seed, cov, fv)
    ev["violations"] += len(fv)
    code = max(code, fcode) if code != 1 else 1
    ev["wall_s"] = round(time.time() - t0, 2)
    return code, ev
