"""C02 - the rebuild set is exactly the set of targets whose inputs changed (engine H + model R)."""
from .. import gen, hist


class Spec:
    id = "C02"
    level = "exploration"
    rule = ("Same generator as C01 but all scripts succeed, with more repeated commands, dependency-dropping .do "
            "edits and rule additions/removals. Oracle: for every command the multiset of script starts in the trace "
            "equals the multiset predicted by the reference model, which tracks per target the version of each "
            "declared dependency seen at its last successful build. Non-trivial = a command that follows at least "
            "one change and for which the model predicts a non-empty, non-total execution set; distinct = SHA-1 of "
            "the case JSON. Cases with a checksummed target below another checksummed target are compared one-sided "
            "(known finding D12) and counted as excluded.")
    assumptions = ["-j1, one invocation at a time", "`redo X Y` with Y in X's closure is not generated (statement silent)",
                   "sources edited only between commands, every edit changes mtime"]
    checks = {"execset", "content", "calls"}

    def cases(self, tier):
        return 1600 if tier == "quick" else 16000

    def strategy(self, tier):
        o = {"p_failflag": 0, "p_csum": 25,
             "weights": {"cmd": 50, "failflag": 0, "setdo": 12, "crash": 6, "adddo": 6, "rmdo": 5, "rmtarget": 8,
                         "mwrite": 4, "mremove": 3}}
        if tier == "thorough":
            o.update(max_targets=14, max_ops=30)
        return gen.histories(o)

    def run_case(self, case, tier):
        return hist.HistoryRunner(case, self.checks, tag="c02").run()


SPEC = Spec()
