"""C02 - the rebuild set is exactly the set of targets whose inputs changed (engine H + model R)."""
from .. import gen, hist


class Spec:
    id = "C02"
    level = "exploration"
    rule = ("Same generator as C01 (failing scripts at a low rate), with more repeated commands, dependency-dropping .do "
            "edits and rule additions/removals. Oracle: for every command the multiset of script starts in the trace "
            "equals the multiset predicted by the reference model, which tracks per target the version of each "
            "declared dependency seen at its last successful build. Non-trivial = a command that follows at least "
            "one change and for which the model predicts a non-empty, non-total execution set; distinct = SHA-1 of "
            "the case JSON. Cases with a checksummed target below another checksummed target are compared one-sided "
            "(known finding D12) and counted as excluded.")
    assumptions = ["-j1, one invocation at a time", "`redo X Y` with Y in X's closure is not generated (statement silent)",
                   "sources edited only between commands, every edit changes mtime"]
    checks = {"execset", "content", "calls"}

    def cases(self, tier):
        return 1600 if tier == "quick" else 16000

    def strategy(self, tier):
        o = {"p_failflag": 12, "p_csum": 25, "p_focus": 40,
             "weights": {"cmd": 50, "failflag": 5, "setdo": 12, "crash": 6, "dropdep": 5, "adddo": 6, "rmdo": 5, "rmtarget": 8,
                         "mwrite": 4, "mremove": 3}}
        # second family: tiny projects, small alphabet (command / edit / .do edit that changes the declared
        # dependencies / remove a produced file / toggle a failure): "stopped declaring X, X edited later" shapes
        t = {"min_targets": 2, "max_targets": 3, "max_sources": 3, "max_dirs": 0, "p_csum": 45, "p_stampif": 60, "p_always": 0,
             "p_ifc": 0, "p_failflag": 30, "p_default": 0, "min_ops": 10, "max_ops": 20, "max_cmd_targets": 1,
             "p_focus": 60, "edit_variants": 2,
             "weights": {"cmd": 45, "edit": 25, "setdo": 14, "rmtarget": 8, "failflag": 8, "dropdep": 10, "stampflag": 8, "touch": 0, "adddo": 0,
                         "rmdo": 0, "mkpath": 0, "rmpath": 0, "ext": 0, "redo": 2, "crash": 2, "mwrite": 0,
                         "mremove": 0}}
        if tier == "thorough":
            o.update(max_targets=14, max_ops=30)
            t.update(max_ops=30)
        from hypothesis import strategies as st
        # third family: chains with two or more checksummed levels (nested out-of-band settles)
        return st.one_of(gen.histories(o), gen.histories(t), gen.histories(o), gen.histories(t), gen.nested_chains())

    def run_case(self, case, tier):
        return hist.HistoryRunner(case, self.checks, tag="c02").run()


SPEC = Spec()
