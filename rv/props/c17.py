"""C17 - redo-ood / redo-targets / redo-sources are safe over-approximations and change nothing."""
import copy

from .. import gen, hist


def final_state(r):
    """Bytes of every model-known path at the end of a history (read before the scratch dir is removed)."""
    return {p: r.disk.read(p) for p in sorted(set(r.m.fs) | set(r.m.targets))}


class Runner(hist.HistoryRunner):
    def close(self):
        try:
            self.final = final_state(self)
        finally:
            hist.HistoryRunner.close(self)


def strip_queries(case):
    c = copy.deepcopy(case)
    c["ops"] = [op for op in c["ops"] if op[0] != "query"]
    return c


def cmd_log(out):
    return [(tuple(s["argv"]), s["rc"], tuple(sorted(s["executed"]))) for s in out.log if "argv" in s]


class Spec:
    id = "C17"
    level = "exploration"
    rule = ("C01's generator (including failing, checksummed, always, ifcreate targets, manual edits/removals) with "
            "redo-ood / redo-targets / redo-sources inserted at random positions and from random working directories. "
            "Oracle at every query: ood is a superset of the known targets whose redo-ifchange would execute them "
            "(model lower bound, checksums actually evaluated) and a subset of those not clean when every uncertain "
            "checksum is assumed to change (upper bound); targets and sources are disjoint, duplicate-free and equal "
            "the model's roles over the known paths. Metamorphic read-onlyness: the same history is run a second time "
            "in a sibling directory without the query commands and every build command's exit status and executed "
            "script multiset, and all final file bytes, must be identical. Non-trivial = an ood query at a point where "
            "the lower bound is non-empty and differs from the upper bound or from the full target set; distinct = "
            "SHA-1 of the case JSON.")
    assumptions = ["-j1, one invocation at a time", "paths above the project root known to redo (../default.do) are ignored"]
    checks = {"query", "content"}

    def cases(self, tier):
        return 1200 if tier == "quick" else 12000

    def strategy(self, tier):
        o = {"p_failflag": 20, "p_csum": 35, "p_focus": 50,
             "weights": {"cmd": 35, "redo": 6, "query": 30, "edit": 14, "failflag": 6, "setdo": 4, "adddo": 1,
                         "rmdo": 1, "rmtarget": 8, "mkpath": 3, "rmpath": 2, "ext": 2, "touch": 3, "mwrite": 9,
                         "mreplace": 3, "mremove": 8}}
        if tier == "thorough":
            o.update(max_targets=12, max_ops=28)
        return gen.histories(o)

    def run_case(self, case, tier):
        a = Runner(case, self.checks, tag="c17a")
        out = a.run()
        if out.violation or out.diverged:
            return out
        if not any(op[0] == "query" for op in case["ops"]):
            return out
        b = Runner(strip_queries(case), {"content"}, tag="c17b")
        outb = b.run()
        if outb.violation or outb.diverged:
            # the twin is judged by the same model; a violation there is reported by the property that owns it
            return outb if outb.violation else out
        la, lb = cmd_log(out), cmd_log(outb)
        if la != lb or a.final != b.final:
            diff = [p for p in a.final if a.final.get(p) != b.final.get(p)]
            out.violation = {"property": "C17", "clause": "queries-changed-later-builds",
                             "detail": {"with_queries": la, "without": lb, "files_differ": diff},
                             "sig": {"symptom": "not-read-only"}, "step": -1}
        out.events["c17:twin-compared"] += 1
        out.commands += outb.commands
        return out


SPEC = Spec()
