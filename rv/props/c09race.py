"""C09, token-race tier (fault enumeration): the GNU-make jobserver pipe is shared with processes redo does not know
(sibling jobs of the parent make). Between "select says the token pipe is readable" and read() another process may
take the byte. For a small build, EVERY read() of the token pipe issued by any redo process is made to lose that race
in turn (LD_PRELOAD shim: one byte is taken out of the pipe immediately before the k-th read and handed to the
harness, which keeps it -- a long-running sibling job -- or returns it later). The build must still finish with
exit 0 and correct targets: redo always holds its own token, so the work it waits for can proceed."""
import multiprocessing
import os
import shutil
import subprocess
import time

from .. import engine, hist, runner, sched, sut
from .. import model as M
from .. import project as P
from .c09 import BAD

SHIM = os.path.join(engine.VERIF, "shim", "verifshim.so")


def scenarios(tier, seed):
    out = []
    for n in (2, 3) if tier == "quick" else (2, 3, 4):
        leaves = ["l%d" % i for i in range(n)]
        for shape in ("direct", "nested", "two-level"):
            for tokens in (1, 2):
                for log in (0, 1):
                    dof = {t + ".do": {"v": 1, "body": [["dep", 1, ["s0"]], ["sleep", 15 * (i + 1)], ["out", "stdout"]]}
                           for i, t in enumerate(leaves)}
                    targets = list(leaves)
                    extra = []
                    if shape in ("nested", "two-level"):
                        dof["m0.do"] = {"v": 1, "body": [["dep", 1, leaves], ["out", "stdout"]]}
                        targets, extra = ["m0"], ["m0"]
                    if shape == "two-level":
                        dof["m1.do"] = {"v": 1, "body": [["dep", 1, leaves[::-1]], ["out", "stdout"]]}
                        targets, extra = ["m0", "m1"], ["m0", "m1"]
                    proj = {"dirs": [""], "sources": ["s0"], "dofiles": dof, "targets": leaves + extra, "watch": []}
                    out.append({"name": "%d-leaves/%s/tokens%d/log%d" % (n, shape, tokens, log), "project": proj,
                                "argv": ["redo-ifchange"] + targets, "tokens": tokens, "log": log})
    if tier == "quick":
        start = (seed * 7) % len(out)
        pick = []
        for i in range(8):
            s = out[(start + i * 5) % len(out)]
            if s not in pick:
                pick.append(s)
        out = pick
    return out


def stuck_proof(sid, jp):
    """No-progress proof for this tier. The zero-CPU proof of engine S does not apply: a process that lost the race
    sits in read() on the token pipe while a 10 ms interval timer keeps interrupting and restarting that read, so it
    accumulates CPU ticks without ever leaving the call. Here the harness owns the pipe: if over three samples 2 s
    apart the invocation consists of the same processes, each blocked with an IDENTICAL syscall line (same call, same
    descriptor, same buffer), nothing but the harness could write the byte that read() waits for -- and it will not."""
    samples = []
    for i in range(3):
        cur = {}
        for q in runner.session_pids(sid):
            snap = runner.proc_snapshot(q)
            if (snap.get("cmdline") or "").startswith("redo-log"):
                continue
            for _ in range(8):
                # the interval timer's handler runs every 10 ms: an instant inside it reads as "running"
                if (snap.get("syscall") or "").split(" ")[0] not in ("running", ""):
                    break
                time.sleep(0.003)
                snap = runner.proc_snapshot(q)
            cur[q] = (snap.get("syscall") or "", snap.get("cmdline"), snap.get("wchan"))
        samples.append(cur)
        if i < 2:
            time.sleep(2.0)
    if not samples[0] or any(set(x) != set(samples[0]) for x in samples):
        return None
    for q in samples[0]:
        lines = [x[q][0] for x in samples]
        if len(set(lines)) != 1 or lines[0].split(" ")[0] in ("running", ""):
            return None
    return {"procs": [{"pid": q, "cmdline": v[1], "syscall": v[0], "wchan": v[2]} for q, v in samples[0].items()],
            "token_pipe": {"read_fd": jp.r, "bytes_in_pipe": jp.available(), "held_by_harness": jp.held}}


def run_one(job):
    """job: scenario + k (0 = counting run) + ret ('never' | 'later'). -> dict"""
    scn, k, ret = job["scn"], job["k"], job["ret"]
    disk = P.Disk(hist.scratch_dir("c09r"))
    res = {"name": scn["name"], "k": k, "ret": ret, "reads": 0, "stolen": 0, "problem": None}
    jp = None
    rout = wout = None
    p = None
    try:
        disk.materialize(scn["project"])
        jp = sched.JobPipe(scn["tokens"], True, 0)
        rout, wout = os.pipe()
        os.set_inheritable(wout, True)
        ctr = os.path.join(disk.ctl, "ctr")
        with open(ctr, "wb") as f:
            f.write(b"\0" * 4096)
        env = runner.base_env(disk, {} if scn["log"] else {"REDO_LOG": "0"})
        env.update(jp.env())
        env.update({"LD_PRELOAD": SHIM, "RV_SHIM_EXE": os.path.realpath(os.path.join(sut.BIN_DIR, "redo")),
                    "RV_SHIM_CTR": ctr, "RV_SHIM_LOG": os.path.join(disk.ctl, "shimlog"), "RV_SHIM_ROOT": disk.root,
                    "RV_SHIM_RACE_FD": str(jp.r), "RV_SHIM_RACE_AT": str(k), "RV_SHIM_RACE_OUT": str(wout)})
        fo = open(os.path.join(disk.ctl, "out"), "wb")
        p = subprocess.Popen(scn["argv"], cwd=disk.root, env=env, stdin=subprocess.DEVNULL, stdout=fo,
                             stderr=subprocess.STDOUT, start_new_session=True, pass_fds=jp.pass_fds() + (wout,),
                             close_fds=True)
        fo.close()
        os.set_blocking(rout, False)
        t0 = time.time()
        given_back = False
        stolen_at = None
        while True:
            rc = p.poll()
            try:
                b = os.read(rout, 16)
                if b:
                    res["stolen"] += len(b)
                    jp.held += len(b)
                    stolen_at = time.time()
            except BlockingIOError:
                pass
            if rc is not None:
                break
            if ret == "later" and stolen_at and not given_back and time.time() - stolen_at > 0.4:
                jp.give(jp.held)
                given_back = True
            if time.time() - t0 > 12:
                proof = stuck_proof(p.pid, jp)
                runner.kill_session(p.pid)
                p.wait()
                if proof:
                    res["problem"] = {"clause": "hang", "sig": {"symptom": "hang", "tier": "token-race"},
                                      "detail": {"proof": proof, "k": k, "ret": ret, "scenario": scn["name"]}}
                else:
                    res["problem"] = "inconclusive"
                return res
            time.sleep(0.005)
        with open(os.path.join(disk.ctl, "out"), "rb") as f:
            text = f.read().decode("utf-8", "replace")
        try:
            with open(os.path.join(disk.ctl, "shimlog")) as f:
                res["reads"] = sum(1 for l in f if l.startswith("r"))
        except OSError:
            pass
        mb = BAD.search(text)
        ctx = {"argv": scn["argv"], "rc": rc, "text": text[-2000:], "k": k, "ret": ret, "scenario": scn["name"],
               "stolen": res["stolen"]}
        if rc == 101 or (mb and ("panicked" in mb.group(0) or "assertion" in mb.group(0))):
            res["problem"] = {"clause": "panic", "sig": {"symptom": hist.panic_sig(text), "tier": "token-race"}, "detail": ctx}
        elif mb:
            res["problem"] = {"clause": "error", "sig": {"symptom": mb.group(0), "tier": "token-race"}, "detail": ctx}
        elif rc != 0:
            res["problem"] = {"clause": "nonzero", "sig": {"symptom": "exit %d" % rc, "tier": "token-race"}, "detail": ctx}
        else:
            m = M.Model(scn["project"])
            memo = {}
            bad = [t for t in m.targets if disk.read(t) != m.from_scratch(t, memo)]
            if bad:
                res["problem"] = {"clause": "wrong-content", "sig": {"symptom": "content", "tier": "token-race"},
                                  "detail": dict(ctx, bad=bad)}
        return res
    except runner.Inconclusive:
        res["problem"] = "inconclusive"
        return res
    finally:
        if p is not None:
            runner.kill_session(p.pid)
        for fd in (rout, wout):
            if fd is not None:
                try:
                    os.close(fd)
                except OSError:
                    pass
        if jp:
            jp.close()
        shutil.rmtree(disk.base, ignore_errors=True)
        hist.cleanup_scratch()


def long_wait(job):
    """Timer-expiry dimension: a redo process that has given its token away while waiting for a target lock gets the
    lock but finds no token, because the parent make's other jobs hold every token for `wait_s` seconds (the harness
    took the parked token). It must simply keep waiting (its back-off timers keep firing) and finish when a token
    comes back."""
    from . import c08
    v = job["long_wait"]
    wait_s = v["wait_s"]
    dof = {"l0.do": {"v": 1, "body": [["dep", 1, ["s0"]], ["work", 1], ["out", "stdout"]]},
           "top0.do": {"v": 1, "body": [["dep", 1, ["l0"]], ["out", "stdout"]]}}
    proj = {"dirs": [""], "sources": ["s0"], "dofiles": dof, "targets": ["l0", "top0"], "watch": [],
            "layers": {"leaves": ["l0"], "mids": [], "tops": ["top0"]}}
    env = {} if v["log"] else {"REDO_LOG": "0"}
    case = {"project": proj,
            "invs": [{"argv": ["redo", "-j1", "l0"], "cwd": "", "env": {"REDO_LOG": "0"}, "jobserver": None, "limit": 1},
                     {"argv": [v["kind"], "top0"], "cwd": "", "env": env,
                      "jobserver": {"tokens": 0, "held": 0, "high": True}, "limit": None}],
            "schedule": [], "sopts": {"coincide": False, "token_games": True, "patient": True, "start_first": True}}
    res = {"name": "long-wait/%s/log%d/%ds" % (v["kind"], v["log"], wait_s), "k": 0, "ret": "after-%ds" % wait_s,
           "reads": 0, "stolen": 0, "problem": None, "long_wait": v}
    r = sched.SchedRunner(case, tag="c09lw")
    try:
        r.start_inv(r.invs[0])
        r.quiescent()
        r.start_inv(r.invs[1])
        t1 = time.time()
        while time.time() - t1 < 15 and not any(sched.proc_state(q)[1] == "72" for q in r.live_pids()):
            time.sleep(0.005)
            r.pump()
        res["stolen"] = r.jp.steal(1)
        gates = [g for g in r.pending_gates() if g.target == "l0"]
        if not res["stolen"] or not gates:
            res["problem"] = "inconclusive"
            return res
        r.release_gate(gates[0])
        t0 = time.time()
        gave = False
        while time.time() - t0 < wait_s + 25:
            r.pump()
            r.reap()
            if r.invs[1].rc is not None:
                break
            if not gave and time.time() - t0 >= wait_s:
                r.jp.give(1)
                gave = True
            time.sleep(0.1)
        inv = r.invs[1]
        text = r.inv_text(inv)
        waited = time.time() - t0
        ctx = {"argv": inv.spec["argv"], "rc": inv.rc, "text": text[-2000:], "waited_s": round(waited, 1),
               "token_returned_after_s": wait_s, "scenario": res["name"]}
        if inv.rc is None:
            res["problem"] = "inconclusive"
        elif inv.rc == 101 or "panicked at" in text:
            res["problem"] = {"clause": "panic", "detail": ctx,
                              "sig": {"symptom": hist.panic_sig(text), "tier": "long-token-wait"}}
        elif inv.rc != 0 or BAD.search(text):
            res["problem"] = {"clause": "nonzero", "detail": ctx,
                              "sig": {"symptom": "exit %s" % inv.rc, "tier": "long-token-wait"}}
        return res
    finally:
        r.close()
        hist.cleanup_scratch()


def run_any(job):
    return long_wait(job) if "long_wait" in job else run_one(job)


def run_case(case, tier):
    out = hist.Outcome()
    res = run_any(case)
    if res["problem"] == "inconclusive":
        raise runner.Inconclusive("token-race run inconclusive")
    if res["problem"]:
        p = res["problem"]
        out.violation = {"property": "C09", "clause": "token-race/" + p["clause"], "step": 0, "detail": p["detail"],
                         "sig": p["sig"]}
    out.nontrivial = res["stolen"] > 0
    return out


def explore(tier, seed, workers=16):
    scns = scenarios(tier, seed)
    ctx = multiprocessing.get_context("fork")
    stats = {"scenarios": {}, "runs": 0, "race_lost": 0, "inconclusive": 0, "token_reads_in_counting_runs": 0}
    problems = []
    samples = []
    with ctx.Pool(workers) as pool:
        counted = pool.map(run_one, [{"scn": s, "k": 0, "ret": "never"} for s in scns])
        jobs = []
        for s, c in zip(scns, counted):
            if c["problem"] == "inconclusive" or c["problem"]:
                if c["problem"] and c["problem"] != "inconclusive":
                    problems.append(c)
                stats["inconclusive"] += 1 if c["problem"] == "inconclusive" else 0
                continue
            # reads vary a little from run to run (timing): go a few past the count; a k beyond the end is a plain run
            n = c["reads"] + 3
            stats["token_reads_in_counting_runs"] += c["reads"]
            stats["scenarios"][s["name"]] = {"token_reads": c["reads"], "points": n, "race_lost": 0}
            for k in range(1, n + 1):
                for ret in ("never", "later"):
                    jobs.append({"scn": s, "k": k, "ret": ret})
        # the long waits go first so that they overlap with everything else
        lw = [{"long_wait": {"kind": k_, "log": lg, "wait_s": ws}}
              for (k_, lg, ws) in ([("redo-ifchange", 0, 70), ("redo", 0, 70), ("redo-ifchange", 1, 70)]
                                   if tier == "quick" else
                                   [("redo-ifchange", 0, 70), ("redo", 0, 70), ("redo-ifchange", 1, 70),
                                    ("redo", 1, 70), ("redo-ifchange", 0, 150), ("redo", 0, 150)])]
        stats["long_token_waits"] = len(lw)
        for res in pool.imap_unordered(run_any, lw + jobs, chunksize=1):
            if "long_wait" in res:
                stats["scenarios"][res["name"]] = {"token_reads": 0, "points": 1, "race_lost": 0}
            stats["runs"] += 1
            if res["problem"] == "inconclusive":
                stats["inconclusive"] += 1
                continue
            if res["stolen"]:
                stats["race_lost"] += 1
                stats["scenarios"][res["name"]]["race_lost"] += 1
                if len(samples) < 4 and stats["runs"] % 13 == 2:
                    samples.append({"scenario": res["name"], "k": res["k"], "token_returned": res["ret"]})
            if res["problem"]:
                problems.append(res)
    return problems, stats, samples


if __name__ == "__main__":
    # run as a child process by c09.run_check so that the (mostly idle) long waits overlap with the other tiers
    import json
    import sys
    from .. import main as _main
    _main.sane_signals()
    tier_, seed_, out_ = sys.argv[1], int(sys.argv[2]), sys.argv[3]
    problems_, stats_, samples_ = explore(tier_, seed_, workers=int(sys.argv[4]) if len(sys.argv) > 4 else 8)
    with open(out_, "w") as f:
        json.dump({"problems": problems_, "stats": stats_, "samples": samples_}, f, default=str)
