"""C06 - at most one .do runs for a given target at any time, across all processes sharing .redo (engine S)."""
import re
import signal
import os

from hypothesis import strategies as st

from .. import hist, runner, sched, sgen
from .c09 import BAD


@st.composite
def cases(draw, tier):
    proj = draw(sgen.graphs({"max_leaf": 4, "max_mid": 4, "p_gate": 85, "p_csum": 10, "p_always": 30,
                             "p_fail": 15}))
    L = proj["layers"]
    allt = L["tops"] + L["mids"] + L["leaves"]
    ninv = draw(st.integers(2, 4))
    invs = []
    for i in range(ninv):
        kind = "redo" if (i == 0 and draw(st.integers(0, 1))) or draw(st.integers(0, 4)) == 0 else "ifchange"
        ts = sgen._subset(draw, allt, 1, 3)
        env = {"REDO_LOG": "0"} if draw(st.integers(0, 2)) else {}
        if draw(st.integers(0, 3)) == 0:
            env["REDO_KEEP_GOING"] = "1"
        argv = (["redo", "-j%d" % draw(st.integers(1, 4))] if kind == "redo" else ["redo-ifchange"]) + ts
        invs.append({"argv": argv, "cwd": "", "env": env, "jobserver": None, "kind": kind})
    fails = sorted({s[1] for spec in proj["dofiles"].values() for s in spec["body"] if s[0] == "failflag"})
    failing = [f for f in fails if draw(st.integers(0, 1))]
    abort = None
    if draw(st.integers(0, 99)) < 25:
        abort = {"inv": draw(st.integers(0, ninv - 1)), "sig": draw(st.sampled_from(["INT", "TERM"])),
                 "after": draw(st.integers(1, 6))}
    return {"project": proj, "invs": invs, "schedule": draw(sgen.schedule()), "failing": failing, "abort": abort,
            "sopts": {"seed": draw(st.integers(0, 2 ** 31 - 1)), "coincide": draw(st.integers(0, 2)) == 0, "token_games": False,
                      "patient": draw(st.integers(0, 1)) == 1,
                      "start_first": draw(st.integers(0, 2)) > 0}}


class Runner(sched.SchedRunner):
    def __init__(self, case, tag):
        sched.SchedRunner.__init__(self, case, tag)
        for f in case.get("failing", []):
            self.disk.set_fail(f, True)
        self.abort = case.get("abort")
        self.steps = 0
        self.aborted = False

    def gate_step(self, g, gates):
        self.steps += 1
        if self.abort and not self.aborted and self.steps >= self.abort["after"]:
            inv = self.invs[self.abort["inv"]]
            if inv.alive():
                # what a terminal delivers: the signal goes to the whole foreground process group
                try:
                    os.killpg(inv.proc.pid, getattr(signal, "SIG" + self.abort["sig"]))
                    inv.signalled = self.abort["sig"]
                    self.aborted = True
                    self.tl.decisions.append(("signal", inv.idx, self.abort["sig"]))
                except OSError:
                    pass
        sched.SchedRunner.gate_step(self, g, gates)


def run_case(case, tier):
    out = hist.Outcome()
    r = Runner(case, tag="c06")
    try:
        r.run()
        out.commands = len(r.invs)
        out.scripts = sum(r.tl.starts.values())
        if r.hang:
            out.violation = {"property": "C09", "clause": "hang", "step": 0, "detail": {"proof": r.hang},
                             "sig": {"symptom": "hang"}}
            return out
        if getattr(r, "deadline_hit", False):
            raise runner.Inconclusive("deadline")
        texts = [r.inv_text(i) for i in r.invs]
        for inv, text in zip(r.invs, texts):
            mb = BAD.search(text)
            if (inv.rc == 101 or (mb and "panicked" in mb.group(0))) and not inv.signalled:
                out.violation = {"property": "C09", "clause": "panic", "step": 0,
                                 "detail": {"argv": inv.spec["argv"], "text": text[-1500:]},
                                 "sig": {"symptom": hist.panic_sig(text)}}
                return out
        # who requested what: count invocations whose output shows a locked/waiting record or that started the
        # same target another invocation also started
        locked = sum(len(re.findall(r"@@REDO:(?:locked|waiting)|redo  *\S+ \(locked|waiting", t)) for t in texts)
        contended = locked > 0
        # which invocation owns each script: walk owner pid -> session is not tracked; use start order instead
        if contended:
            out.nontrivial = True
            out.events["c06:lock-contention"] += 1
        if case.get("failing"):
            out.events["c06:with-failing-script"] += 1
        if r.aborted:
            out.events["c06:with-group-signal"] += 1
        if any(i.spec["kind"] == "redo" for i in r.invs[1:]):
            out.events["c06:forced-second-requester"] += 1
        ctx = {"invs": [i.spec["argv"] for i in r.invs], "rcs": [i.rc for i in r.invs],
               "decisions": r.tl.decisions[-40:], "events": [e[1:] for e in r.tl.ev[-60:]]}
        if r.tl.overlaps:
            out.violation = {"property": "C06", "clause": "overlapping-executions", "step": 0,
                             "detail": dict(ctx, overlaps=r.tl.overlaps[:5], texts=[t[-800:] for t in texts]),
                             "sig": {"symptom": "overlap", "signalled": bool(r.aborted)}}
            return out
        # record-before-decide: all later invocations are redo-ifchange => a target that completed successfully
        # (X rc 0) must not be started again afterwards by a redo-ifchange process of a *later* invocation.
        # With only redo-ifchange later invocations and nothing changing, "started again after a successful
        # completion" can only be legitimate for the first invocation's forced `redo` of its own command-line
        # targets, which we exclude.
        forced = set()
        for inv in r.invs:
            if inv.spec["kind"] == "redo":
                forced |= set(a for a in inv.spec["argv"][1:] if not a.startswith("-"))
        done_ok = {}
        again = []
        for seq, kind, target, pid, extra in r.tl.ev:
            if kind == "X" and extra == 0:
                done_ok.setdefault(target, seq)
            elif kind == "S" and target in done_ok and target not in forced:
                again.append(target)
        if again and not case.get("failing") and not r.aborted and all(i.spec["kind"] != "redo" for i in r.invs[1:]):
            # the older-run-sees-newer-build rebuild (run ids) is legitimate only for an invocation that started
            # BEFORE the one that built it; invocations here start in index order, so inspect who rebuilt it
            out.events["c06:rebuilt-after-success(seen)"] += 1
        return out
    finally:
        r.close()


class Spec:
    id = "C06"
    level = "exploration"
    rule = ("Layered graphs whose scripts are almost all gated (85%), 2-4 top-level invocations over overlapping target "
            "sets (redo -j1..4 and redo-ifchange, keep-going sometimes), optionally failing scripts and a SIGINT/SIGTERM "
            "to one invocation's process group part-way; the harness decides start times and which gated script "
            "finishes next (a held script keeps its target 'running' for as long as the harness wants, so a second "
            "process that is ever going to start the same target will show up). Oracle: in the event stream no S "
            "(script start) for a target arrives while another process's execution of the same target is still open "
            "(no X yet and process alive). Non-trivial = some invocation logged a locked/waiting record, i.e. two "
            "processes really wanted the same target while it was being built.")
    assumptions = ["aborts are group signals (what a terminal delivers); SIGKILL of a single lock holder belongs to C10",
                   "event order on the FIFO reflects causality (each script writes its own events synchronously)"]

    def cases(self, tier):
        return 400 if tier == "quick" else 4000

    def strategy(self, tier):
        return cases(tier)

    def run_case(self, case, tier):
        return run_case(case, tier)


SPEC = Spec()
