"""C06 - at most one .do runs for a given target at any time, across all processes sharing .redo (engine S)."""
import re
import signal
import os

from hypothesis import strategies as st

from .. import hist, runner, sched, sgen
from .c09 import BAD


@st.composite
def cases(draw, tier):
    proj = draw(sgen.graphs({"max_leaf": 4, "max_mid": 4, "p_gate": 85, "p_csum": 25, "p_always": 20,
                             "p_fail": 15}))
    allif = draw(st.integers(0, 99)) < 40      # every invocation is a redo-ifchange: nothing is ever forced
    L = proj["layers"]
    allt = L["tops"] + L["mids"] + L["leaves"]
    ninv = draw(st.integers(2, 4))
    invs = []
    for i in range(ninv):
        kind = "redo" if (i == 0 and draw(st.integers(0, 1))) or draw(st.integers(0, 4)) == 0 else "ifchange"
        if allif:
            kind = "ifchange"
        ts = sgen._subset(draw, allt, 1, 3)
        if draw(st.integers(0, 99)) < 20:
            # the same target once more under another spelling (./t, or the absolute path: "@abs/t" is filled in when
            # the scratch directory is known): still one lock and one build
            dup = ts[draw(st.integers(0, len(ts) - 1))]
            ts.insert(draw(st.integers(0, len(ts))), ("./" if draw(st.integers(0, 1)) else "@abs/") + dup)
        env = {"REDO_LOG": "0"} if draw(st.integers(0, 2)) else {}
        if draw(st.integers(0, 3)) == 0:
            env["REDO_KEEP_GOING"] = "1"
        argv = (["redo", "-j%d" % draw(st.integers(1, 4))] if kind == "redo" else ["redo-ifchange"]) + ts
        invs.append({"argv": argv, "cwd": "", "env": env, "jobserver": None, "kind": kind})
    fails = sorted({s[1] for spec in proj["dofiles"].values() for s in spec["body"] if s[0] == "failflag"})
    failing = [f for f in fails if draw(st.integers(0, 1))]
    abort = None
    if draw(st.integers(0, 99)) < 25:
        abort = {"inv": draw(st.integers(0, ninv - 1)), "sig": draw(st.sampled_from(["INT", "TERM"])),
                 "after": draw(st.integers(1, 6))}
    return {"project": proj, "invs": invs, "schedule": draw(sgen.schedule()), "failing": failing, "abort": abort,
            "prebuild": draw(st.integers(0, 99)) < 45,
            "sopts": {"seed": draw(st.integers(0, 2 ** 31 - 1)), "coincide": draw(st.integers(0, 2)) == 0, "token_games": False,
                      "patient": draw(st.integers(0, 1)) == 1,
                      "start_first": draw(st.integers(0, 2)) > 0}}


class Runner(sched.SchedRunner):
    def __init__(self, case, tag):
        sched.SchedRunner.__init__(self, case, tag)
        for f in case.get("failing", []):
            self.disk.set_fail(f, True)
        self.abort = case.get("abort")
        self.steps = 0
        self.aborted = False
        self.ppid_at_start = {}    # pid -> ppid, sampled while the processes are alive (walk up to the invocation)
        orig_add = self.tl.add

        def add(kind, target, pid, extra):
            orig_add(kind, target, pid, extra)
            if kind == "S":
                cur, hops = extra, 0
                while cur and cur > 1 and hops < 40 and cur not in self.ppid_at_start:
                    _, _, pp, _ = sched.proc_state(cur)
                    self.ppid_at_start[cur] = pp
                    cur = pp
                    hops += 1
        self.tl.add = add

    def gate_step(self, g, gates):
        self.steps += 1
        if self.abort and not self.aborted and self.steps >= self.abort["after"]:
            inv = self.invs[self.abort["inv"]]
            if inv.alive():
                # what a terminal delivers: the signal goes to the whole foreground process group
                try:
                    for q in runner.session_pids(inv.proc.pid):
                        try:
                            with open("/proc/%d/stat" % q) as f:
                                st_ = f.read()
                            if int(st_[st_.rindex(")") + 2:].split()[2]) == inv.proc.pid:
                                self.tl.doomed.add(q)
                        except (OSError, ValueError):
                            pass
                    os.killpg(inv.proc.pid, getattr(signal, "SIG" + self.abort["sig"]))
                    inv.signalled = self.abort["sig"]
                    self.aborted = True
                    self.tl.decisions.append(("signal", inv.idx, self.abort["sig"]))
                except OSError:
                    pass
        sched.SchedRunner.gate_step(self, g, gates)


def run_case(case, tier):
    out = hist.Outcome()
    r = Runner(case, tag="c06")
    try:
        for inv in r.invs:
            if any(a.startswith("@abs/") for a in inv.spec["argv"]):
                inv.spec["argv"] = [os.path.join(r.disk.root, a[5:]) if a.startswith("@abs/") else a
                                    for a in inv.spec["argv"]]
                out.events["c06:target-named-twice-(absolute-and-relative)-on-one-command-line"] += 1
        if case.get("prebuild"):
            # a complete serial build first, then the common source is edited: the contended commands are REBUILDS
            # (maybe-dirty targets above checksummed ones take the out-of-band path through redo-unlocked)
            L = case["project"]["layers"]
            for f in case.get("failing", []):
                r.disk.set_fail(f, False)
            pr = runner.run_cmd(r.disk, ["redo-ifchange"] + L["tops"] + L["mids"], env_extra={"REDO_LOG": "0"})
            if pr.rc != 0:
                raise runner.Inconclusive("prebuild failed")
            r.disk.take_trace()
            r.disk.write("s0", hist.P.source_content("s0", 1))
            for f in case.get("failing", []):
                r.disk.set_fail(f, True)
            out.events["c06:rebuild-after-edit"] += 1
        r.run()
        out.commands = len(r.invs)
        out.scripts = sum(r.tl.starts.values())
        if r.hang:
            out.violation = {"property": "C09", "clause": "hang", "step": 0, "detail": {"proof": r.hang},
                             "sig": {"symptom": "hang"}}
            return out
        if getattr(r, "deadline_hit", False):
            raise runner.Inconclusive("deadline")
        texts = [r.inv_text(i) for i in r.invs]
        if r.tl.overlaps:
            # (this property's own violation first: a redo that aborts and leaves its script running is ALSO C09's)
            out.nontrivial = True
            out.violation = {"property": "C06", "clause": "overlapping-executions", "step": 0,
                             "detail": {"invs": [i.spec["argv"] for i in r.invs], "rcs": [i.rc for i in r.invs],
                                        "overlaps": r.tl.overlaps[:5], "texts": [t[-800:] for t in texts],
                                        "decisions": r.tl.decisions[-40:]},
                             "sig": {"symptom": "overlap", "signalled": bool(r.aborted)}}
            return out
        for inv, text in zip(r.invs, texts):
            mb = BAD.search(text)
            if (inv.rc == 101 or (mb and "panicked" in mb.group(0))) and not inv.signalled:
                out.violation = {"property": "C09", "clause": "panic", "step": 0,
                                 "detail": {"argv": inv.spec["argv"], "text": text[-1500:]},
                                 "sig": {"symptom": hist.panic_sig(text)}}
                return out
        # who requested what: count invocations whose output shows a locked/waiting record or that started the
        # same target another invocation also started
        locked = sum(len(re.findall(r"@@REDO:(?:locked|waiting)|redo  *\S+ \(locked|waiting", t)) for t in texts)
        contended = locked > 0
        # which invocation owns each script: walk owner pid -> session is not tracked; use start order instead
        if contended:
            out.nontrivial = True
            out.events["c06:lock-contention"] += 1
        if case.get("failing"):
            out.events["c06:with-failing-script"] += 1
        if r.aborted:
            out.events["c06:with-group-signal"] += 1
        if any(i.spec["kind"] == "redo" for i in r.invs[1:]):
            out.events["c06:forced-second-requester"] += 1
        ctx = {"invs": [i.spec["argv"] for i in r.invs], "rcs": [i.rc for i in r.invs],
               "decisions": r.tl.decisions[-40:], "events": [e[1:] for e in r.tl.ev[-60:]]}
        if r.tl.overlaps:
            out.violation = {"property": "C06", "clause": "overlapping-executions", "step": 0,
                             "detail": dict(ctx, overlaps=r.tl.overlaps[:5], texts=[t[-800:] for t in texts]),
                             "sig": {"symptom": "overlap", "signalled": bool(r.aborted)}}
            return out
        # record-before-decide, decidable form: when EVERY invocation is a redo-ifchange (nothing is forced), no
        # script fails, nobody is signalled and nothing changes meanwhile, a target whose script completed
        # successfully has been recorded before anybody else may look at it -- so no later-or-same invocation may
        # run it again (redo-always targets and everything above them are legitimately rebuilt once per run)
        all_if = all(i.spec["kind"] != "redo" for i in r.invs)
        if all_if and not case.get("failing") and not r.aborted:
            mm = hist.M.Model(case["project"])
            dof = case["project"]["dofiles"]

            def has_always(t):
                return any(q in mm.targets and any(stt[0] == "always" for stt in dof[q + ".do"]["body"])
                           for q in mm.closure(t))
            sess = {}
            first_ok = {}
            again = []
            for seq, kind, target, pid, extra in r.tl.ev:
                if kind == "S":
                    own = extra
                    inv_i = None
                    cur, hops = own, 0
                    while cur and cur > 1 and hops < 40 and inv_i is None:
                        for inv in r.invs:
                            if inv.proc is not None and inv.proc.pid == cur:
                                inv_i = inv.idx
                        cur = r.ppid_at_start.get(cur)
                        hops += 1
                    sess[pid] = inv_i
                    if target in first_ok and not has_always(target):
                        fi = first_ok[target]
                        if inv_i is not None and fi[1] is not None and inv_i >= fi[1]:
                            again.append({"target": target, "first_built_by_inv": fi[1], "again_by_inv": inv_i,
                                          "seq": seq, "first_done_seq": fi[0]})
                elif kind == "X" and extra == 0:
                    first_ok.setdefault(target, (seq, sess.get(pid)))
            # NOT an oracle (tried, withdrawn -- DESIGN 10.3 #13): with concurrent invocations redo orders changes by
            # run id, so a source whose new stamp was first noticed by the newer run makes a target built meanwhile
            # by the older run look older than its source, and it is conservatively rebuilt. Counted only.
            out.events["c06:all-ifchange-scenario"] += 1
            if again:
                out.events["c06:all-ifchange-scenario/rebuilt-after-success(conservative run-id ordering)"] += 1
        # (older heuristic kept as a counter only) all later invocations are redo-ifchange => a target that completed successfully
        # (X rc 0) must not be started again afterwards by a redo-ifchange process of a *later* invocation.
        # With only redo-ifchange later invocations and nothing changing, "started again after a successful
        # completion" can only be legitimate for the first invocation's forced `redo` of its own command-line
        # targets, which we exclude.
        forced = set()
        for inv in r.invs:
            if inv.spec["kind"] == "redo":
                forced |= set(a for a in inv.spec["argv"][1:] if not a.startswith("-"))
        done_ok = {}
        again = []
        for seq, kind, target, pid, extra in r.tl.ev:
            if kind == "X" and extra == 0:
                done_ok.setdefault(target, seq)
            elif kind == "S" and target in done_ok and target not in forced:
                again.append(target)
        if again and not case.get("failing") and not r.aborted and all(i.spec["kind"] != "redo" for i in r.invs[1:]):
            # the older-run-sees-newer-build rebuild (run ids) is legitimate only for an invocation that started
            # BEFORE the one that built it; invocations here start in index order, so inspect who rebuilt it
            out.events["c06:rebuilt-after-success(seen)"] += 1
        return out
    finally:
        r.close()


class Spec:
    id = "C06"
    level = "exploration"
    rule = ("Layered graphs whose scripts are almost all gated (85%), 2-4 top-level invocations over overlapping target "
            "sets (redo -j1..4 and redo-ifchange, keep-going sometimes), optionally failing scripts and a SIGINT/SIGTERM "
            "to one invocation's process group part-way; the harness decides start times and which gated script "
            "finishes next (a held script keeps its target 'running' for as long as the harness wants, so a second "
            "process that is ever going to start the same target will show up). Oracle: in the event stream no S "
            "(script start) for a target arrives while another process's execution of the same target is still open "
            "(no X yet and process alive). Non-trivial = some invocation logged a locked/waiting record, i.e. two "
            "processes really wanted the same target while it was being built.")
    assumptions = ["aborts are group signals (what a terminal delivers); SIGKILL of a single lock holder belongs to C10",
                   "event order on the FIFO reflects causality (each script writes its own events synchronously)"]

    def accepts(self, case):
        return "invs" in case

    def cases(self, tier):
        return 400 if tier == "quick" else 4000

    def strategy(self, tier):
        return cases(tier)

    def run_case(self, case, tier):
        return run_case(case, tier)


SPEC = Spec()


def spec_for(case):
    from . import c06stop
    return c06stop if "scn" in case else SPEC


def run_check(tier, seed):
    """Scheduled multi-invocation scenarios (above) + the stop-point tier (every state-changing call of one invocation
    is a point at which it is frozen while a second invocation runs)."""
    import time
    from .. import engine
    from . import c06stop
    t0 = time.time()
    code, ev = engine.run_property("rv.props.c06", tier, seed)
    problems, stats, samples = c06stop.explore(tier, seed)
    cov = ev["coverage"]
    cov["stop_points"] = dict(stats, exhaustive=(tier != "quick"), samples=samples,
                              rule="4 small projects x log on/off x fresh/rebuild (4 of them in quick): invocation P1 under "
                                   "the LD_PRELOAD shim is SIGSTOPped immediately before its n-th state-changing libc "
                                   "call, for every n (every 3rd in quick); a second `redo-ifchange` of the same targets "
                                   "runs meanwhile; then P1 continues. A target whose script had exited successfully "
                                   "before P2 started must not be executed by P2; both exit 0; contents from-scratch. "
                                   "Non-trivial = the stop really happened.")
    cov["evaluations"] += stats["runs"]
    cov["distinct_nontrivial"] += stats["stopped"]
    cov["inconclusive_cases"] += stats["inconclusive"]
    known = engine.load_known()
    seen = set()
    for res in problems:
        p = res["problem"]
        if p == "inconclusive":
            continue
        prop = p.get("prop", "C06")
        if prop != "C06":
            key = prop + "/" + p["clause"]
            cov["other_property_symptoms_seen"][key] = cov["other_property_symptoms_seen"].get(key, 0) + 1
            continue
        k = engine.match_known("C06", p["sig"], known)
        if k is not None:
            cov["known_finding_hits"][k["id"]] = cov["known_finding_hits"].get(k["id"], 0) + 1
            print("KNOWN-FINDING: property=C06 %s (%s)" % (k["what"], k["id"]))
            continue
        key = (res["name"], p["clause"])
        if key in seen:
            continue
        seen.add(key)
        scn = [x for x in c06stop.scenarios(tier, seed) if x["name"] == res["name"]][0]
        v = {"property": "C06", "clause": "stop-point/" + p["clause"], "detail": p["detail"], "sig": p["sig"], "step": 0}
        path = engine.write_replay("C06", {"scn": scn, "n": res["n"]}, v)
        print("VIOLATION property=C06 replay=%s" % path)
        print("  clause=%s sig=%s" % (v["clause"], p["sig"]))
        ev["violations"] += 1
        code = 1
    ev["wall_s"] = round(time.time() - t0, 2)
    return code, ev
