"""C09 - no interleaving crashes or deadlocks the scheduler (engine S)."""
import re

from hypothesis import strategies as st

from .. import hist, runner, sched, sgen


@st.composite
def cases(draw, tier):
    proj = draw(sgen.graphs({"max_leaf": 5 if tier == "quick" else 8, "max_mid": 4 if tier == "quick" else 7}))
    L = proj["layers"]
    allt = L["tops"] + L["mids"] + L["leaves"]
    ninv = draw(st.sampled_from([1, 1, 1, 2, 2, 3]))
    invs = []
    inherited = draw(st.integers(0, 99)) < 30
    for i in range(ninv):
        kind = draw(st.sampled_from(["redo", "redo", "ifchange"]))
        ts = sgen._subset(draw, allt, 1, 4)
        if draw(st.integers(0, 99)) < 20:
            # the same target named twice, in two spellings
            ts.append(sgen._pick(draw, sgen.spell_variants(ts[0])[1:]))
        env = {}
        if not draw(st.integers(0, 1)):
            env["REDO_LOG"] = "0"
        js = None
        if kind == "redo":
            if inherited and i == 0:
                js = {"tokens": draw(st.integers(0, 3)), "high": draw(st.integers(0, 3)) > 0}
                argv = ["redo"] + ts
            else:
                argv = ["redo", "-j%d" % draw(st.integers(1, 8))] + ts
                if draw(st.integers(0, 3)) == 0:
                    argv.insert(2, "--shuffle")
        else:
            argv = ["redo-ifchange"] + ts
            if inherited and i == 0:
                js = {"tokens": draw(st.integers(0, 3)), "high": draw(st.integers(0, 3)) > 0}
        invs.append({"argv": argv, "cwd": "", "env": env, "jobserver": js})
    return {"project": {k: v for k, v in proj.items()}, "invs": invs, "schedule": draw(sgen.schedule()),
            "sopts": {"seed": draw(st.integers(0, 2 ** 31 - 1)), "coincide": draw(st.integers(0, 3)) > 0, "token_games": draw(st.integers(0, 1)) == 1,
                      "patient": draw(st.integers(0, 3)) == 0, "start_first": draw(st.integers(0, 1)) == 1}}


BAD = re.compile(r"panicked at|assertion failed|JobServer deadlock|EDEADLK|Resource deadlock|database is locked|"
                 r"on exit: expected|unexpected EOF on token read")


def run_case(case, tier):
    out = hist.Outcome()
    r = sched.SchedRunner(case, tag="c09")
    try:
        r.run()
        out.commands = len(r.invs)
        out.scripts = sum(r.tl.starts.values())
        out.events["c09:coincidences"] += r.coincidences
        locked = 0
        problems = []
        for inv in r.invs:
            text = r.inv_text(inv)
            locked += len(re.findall(r"@@REDO:(?:locked|waiting)", text))
            if inv.proc is None:
                continue
            if inv.rc is None:
                continue
            m = BAD.search(text)
            if inv.rc == 101 or (m and ("panicked" in m.group(0) or "assertion" in m.group(0))):
                problems.append(("panic", hist.panic_sig(text), inv, text))
            elif m:
                problems.append(("error", m.group(0), inv, text))
            elif inv.rc != 0:
                problems.append(("nonzero", "exit %d" % inv.rc, inv, text))
        if r.hang:
            out.violation = {"property": "C09", "clause": "hang", "step": 0,
                             "detail": {"proof": r.hang, "decisions": r.tl.decisions[-30:],
                                        "texts": [r.inv_text(i)[-1500:] for i in r.invs]},
                             "sig": {"symptom": "hang"}}
            return out
        if getattr(r, "deadline_hit", False):
            raise runner.Inconclusive("scenario deadline without no-progress proof")
        if r.coincidences or locked:
            out.nontrivial = True
        if locked:
            out.events["c09:lock-handover"] += 1
        if len(r.invs) > 1:
            out.events["c09:multi-invocation"] += 1
        if any(i.spec.get("jobserver") for i in r.invs):
            out.events["c09:inherited-jobserver"] += 1
        if problems:
            kind, sym, inv, text = problems[0]
            prop = "C09"
            if "database is locked" in sym:
                prop = "C16"      # a database-busy failure is C16's subject
            elif "on exit: expected" in sym:
                prop = "C08"      # token accounting is C08's subject
            out.violation = {"property": prop, "clause": kind, "step": 0,
                             "detail": {"argv": inv.spec["argv"], "rc": inv.rc, "text": text[-2500:],
                                        "decisions": r.tl.decisions[-40:],
                                        "all": [(p[0], p[1], p[2].spec["argv"]) for p in problems]},
                             "sig": {"symptom": sym}}
        return out
    finally:
        r.close()


class Spec:
    id = "C09"
    level = "exploration"
    rule = ("Layered graphs (2-5 leaves mostly gated, 1-4 mids over overlapping leaf subsets, 1-2 tops; some always / "
            "checksummed), 1-3 top-level invocations (redo -j1..8 [--shuffle] / redo-ifchange; own or harness-provided "
            "jobserver with 0-3 tokens at low or high fd numbers; log capture on/off; a target named twice in two "
            "spellings), all scripts succeed. The harness owns the schedule: which gated script finishes next, which "
            "finish *together with each other and/or a token arrival* while their owning redo process is SIGSTOPped "
            "(coincidence), when the next invocation starts, token steal/return. Oracle: every invocation ends with "
            "exit 0; no panic/assertion text, no EDEADLK, no 'JobServer deadlock', no token-count error; a hang is "
            "reported only with a no-progress proof (zero CPU over two windows). Non-trivial = at least one "
            "coincidence fired or one lock hand-over (locked/waiting record) happened; distinct = SHA-1 of the case.")
    assumptions = ["schedules are owned at script/token/start granularity; interleavings inside one redo process "
                   "between two syscalls are not enumerated", "residual kernel timing can make a saved case flaky "
                   "(oracles are invariants over all schedules, so this costs reproducibility, not soundness)"]

    def accepts(self, case):
        return "invs" in case

    def cases(self, tier):
        return 640 if tier == "quick" else 6400

    def strategy(self, tier):
        return cases(tier)

    def run_case(self, case, tier):
        return run_case(case, tier)


SPEC = Spec()


def spec_for(case):
    from . import c09race, c09sys
    if "scenario" in case:
        return c09sys
    if "scn" in case or "long_wait" in case:
        return c09race
    return SPEC


def run_check(tier, seed):
    """Random/PRNG schedules over generated scenarios (above) + the systematic tier: every schedule of small scenarios."""
    import time
    from .. import engine
    from . import c09sys
    t0 = time.time()
    # the token-race / long-token-wait tier is mostly idle waiting: it runs as a child process beside the others
    import subprocess
    import sys as _sys
    import tempfile
    from .. import sut as _sut
    _sut.build()
    race_out = tempfile.mktemp(prefix="rv-c09race-", suffix=".json", dir="/dev/shm")
    race_proc = subprocess.Popen([_sys.executable, "-m", "rv.props.c09race", tier, str(seed), race_out, "8"],
                                 cwd=engine.VERIF)
    code, ev = engine.run_property("rv.props.c09", tier, seed)
    problems, stats, samples = c09sys.explore(tier, seed)
    cov = ev["coverage"]
    cov["systematic"] = dict(stats, exhaustive=not any(v["truncated"] for v in stats["scenarios"].values()),
                             rule="small scenarios (2-3 gated leaves quick / 2-4 thorough; requested directly or through "
                                  "one nested redo-ifchange; own -jN or harness jobserver with returnable tokens; log "
                                  "capture on/off): at every quiescent point EVERY non-empty subset of {gated script k "
                                  "exits, a token arrives} is delivered inside one wake-up (SIGSTOP/SIGCONT) and the "
                                  "enumeration recurses until the invocation ends; stateless DFS by re-running prefixes. "
                                  "Non-trivial = a schedule containing a subset of size >= 2.",
                             samples=samples)
    cov["evaluations"] += stats["schedules"]
    cov["distinct_nontrivial"] += stats["with_coincidence"]
    cov["inconclusive_cases"] += stats["inconclusive"]
    known = engine.load_known()
    seen = set()
    for res in problems:
        p = res["problem"]
        prop = "C09"
        if "database is locked" in p["sig"]["symptom"]:
            prop = "C16"
        elif "on exit: expected" in p["sig"]["symptom"]:
            prop = "C08"
        if prop != "C09":
            cov["other_property_symptoms_seen"][prop + "/" + p["clause"]] = \
                cov["other_property_symptoms_seen"].get(prop + "/" + p["clause"], 0) + 1
            continue
        k = engine.match_known("C09", p["sig"], known)
        if k is not None:
            cov["known_finding_hits"][k["id"]] = cov["known_finding_hits"].get(k["id"], 0) + 1
            print("KNOWN-FINDING: property=C09 %s (%s)" % (k["what"], k["id"]))
            continue
        key = (res["scenario"], p["clause"], p["sig"]["symptom"])
        if key in seen:
            continue
        seen.add(key)
        scn = [x for x in c09sys.scenarios(tier, seed) if x["name"] == res["scenario"]][0]
        v = {"property": "C09", "clause": "systematic/" + p["clause"], "detail": p["detail"], "sig": p["sig"], "step": 0}
        path = engine.write_replay("C09", {"scenario": scn, "prefix": res["prefix"]}, v)
        print("VIOLATION property=C09 replay=%s" % path)
        print("  clause=%s sig=%s schedule=%s" % (v["clause"], p["sig"], res["fired"]))
        ev["violations"] += 1
        code = 1
    # regression replays of the two extra tiers
    import json as _json
    import os as _os
    from . import c09race
    rdir = _os.path.join(engine.VERIF, "replays", "C09")
    for fn in sorted(_os.listdir(rdir)) if _os.path.isdir(rdir) else []:
        if not (fn.startswith("reg-") or fn.startswith("known-")) or not fn.endswith(".json"):
            continue
        with open(_os.path.join(rdir, fn)) as f:
            rp = _json.load(f)
        mod = spec_for(rp["case"])
        if mod is SPEC or "long_wait" in rp["case"]:
            continue    # (the long-wait cases are part of every run of the token-race tier anyway)
        try:
            o = mod.run_case(rp["case"], tier)
        except runner.Inconclusive:
            continue
        cov["regression_replays"] += 1
        cov["evaluations"] += 1
        if o.violation and o.violation["property"] == "C09":
            k = engine.match_known("C09", o.violation["sig"], known)
            if k is not None:
                print("KNOWN-FINDING: property=C09 %s (%s)" % (k["what"], k["id"]))
            else:
                print("VIOLATION property=C09 replay=%s" % _os.path.join(rdir, fn))
                print("  clause=%s sig=%s" % (o.violation["clause"], o.violation["sig"]))
                ev["violations"] += 1
                code = 1
    # token-race tier (fault enumeration over every read of the jobserver pipe)
    race_proc.wait()
    try:
        with open(race_out) as f:
            _r = _json.load(f)
        rproblems, rstats, rsamples = _r["problems"], _r["stats"], _r["samples"]
    except (OSError, ValueError):
        _sys.stderr.write("token-race tier did not report\n")
        rproblems, rstats, rsamples = [], {"runs": 0, "race_lost": 0, "inconclusive": 0, "scenarios": {}}, []
        if code == 0:
            code = 2
    finally:
        try:
            _os.unlink(race_out)
        except OSError:
            pass
    cov["token_race"] = dict(rstats, exhaustive=True, samples=rsamples,
                             rule="small ungated builds under a harness jobserver (1-2 tokens): every read() of the token "
                                  "pipe by any redo process loses the race in turn (shim takes the byte first and hands it "
                                  "to the harness, which keeps it or returns it 0.4 s later); the build must end with exit "
                                  "0 and from-scratch contents. Plus the timer-expiry cases: a process that parked its token for a "
                                  "lock wait finds every token gone for 70 s (150 s thorough) and must keep waiting, not "
                                  "abort. Non-trivial = the byte was really taken.")
    cov["evaluations"] += rstats["runs"]
    cov["distinct_nontrivial"] += rstats["race_lost"]
    cov["inconclusive_cases"] += rstats["inconclusive"]
    seen = set()
    for res in rproblems:
        p = res["problem"]
        if p == "inconclusive":
            continue
        key = (res["name"], p["clause"])
        if key in seen:
            continue
        seen.add(key)
        v = {"property": "C09", "clause": "token-race/" + p["clause"], "detail": p["detail"], "sig": p["sig"], "step": 0}
        if "long_wait" in res:
            rcase = {"long_wait": res["long_wait"]}
        else:
            scn = [x for x in c09race.scenarios(tier, seed) if x["name"] == res["name"]][0]
            rcase = {"scn": scn, "k": res["k"], "ret": res["ret"]}
        path = engine.write_replay("C09", rcase, v)
        print("VIOLATION property=C09 replay=%s" % path)
        print("  clause=%s sig=%s" % (v["clause"], p["sig"]))
        ev["violations"] += 1
        code = 1
    ev["wall_s"] = round(time.time() - t0, 2)
    return code, ev
