"""C09 - no interleaving crashes or deadlocks the scheduler (engine S)."""
import re

from hypothesis import strategies as st

from .. import hist, runner, sched, sgen


@st.composite
def cases(draw, tier):
    proj = draw(sgen.graphs({"max_leaf": 5 if tier == "quick" else 8, "max_mid": 4 if tier == "quick" else 7}))
    L = proj["layers"]
    allt = L["tops"] + L["mids"] + L["leaves"]
    ninv = draw(st.sampled_from([1, 1, 1, 2, 2, 3]))
    invs = []
    inherited = draw(st.integers(0, 99)) < 30
    for i in range(ninv):
        kind = draw(st.sampled_from(["redo", "redo", "ifchange"]))
        ts = sgen._subset(draw, allt, 1, 4)
        if draw(st.integers(0, 99)) < 20:
            # the same target named twice, in two spellings
            ts.append(sgen._pick(draw, sgen.spell_variants(ts[0])[1:]))
        env = {}
        if not draw(st.integers(0, 1)):
            env["REDO_LOG"] = "0"
        js = None
        if kind == "redo":
            if inherited and i == 0:
                js = {"tokens": draw(st.integers(0, 3)), "high": draw(st.integers(0, 3)) > 0}
                argv = ["redo"] + ts
            else:
                argv = ["redo", "-j%d" % draw(st.integers(1, 8))] + ts
                if draw(st.integers(0, 3)) == 0:
                    argv.insert(2, "--shuffle")
        else:
            argv = ["redo-ifchange"] + ts
            if inherited and i == 0:
                js = {"tokens": draw(st.integers(0, 3)), "high": draw(st.integers(0, 3)) > 0}
        invs.append({"argv": argv, "cwd": "", "env": env, "jobserver": js})
    return {"project": {k: v for k, v in proj.items()}, "invs": invs, "schedule": draw(sgen.schedule()),
            "sopts": {"seed": draw(st.integers(0, 2 ** 31 - 1)), "coincide": draw(st.integers(0, 3)) > 0, "token_games": draw(st.integers(0, 1)) == 1,
                      "patient": draw(st.integers(0, 3)) == 0, "start_first": draw(st.integers(0, 1)) == 1}}


BAD = re.compile(r"panicked at|assertion failed|JobServer deadlock|EDEADLK|Resource deadlock|database is locked|"
                 r"on exit: expected|unexpected EOF on token read")


def run_case(case, tier):
    out = hist.Outcome()
    r = sched.SchedRunner(case, tag="c09")
    try:
        r.run()
        out.commands = len(r.invs)
        out.scripts = sum(r.tl.starts.values())
        out.events["c09:coincidences"] += r.coincidences
        locked = 0
        problems = []
        for inv in r.invs:
            text = r.inv_text(inv)
            locked += len(re.findall(r"@@REDO:(?:locked|waiting)", text))
            if inv.proc is None:
                continue
            if inv.rc is None:
                continue
            m = BAD.search(text)
            if inv.rc == 101 or (m and ("panicked" in m.group(0) or "assertion" in m.group(0))):
                problems.append(("panic", hist.panic_sig(text), inv, text))
            elif m:
                problems.append(("error", m.group(0), inv, text))
            elif inv.rc != 0:
                problems.append(("nonzero", "exit %d" % inv.rc, inv, text))
        if r.hang:
            out.violation = {"property": "C09", "clause": "hang", "step": 0,
                             "detail": {"proof": r.hang, "decisions": r.tl.decisions[-30:],
                                        "texts": [r.inv_text(i)[-1500:] for i in r.invs]},
                             "sig": {"symptom": "hang"}}
            return out
        if getattr(r, "deadline_hit", False):
            raise runner.Inconclusive("scenario deadline without no-progress proof")
        if r.coincidences or locked:
            out.nontrivial = True
        if locked:
            out.events["c09:lock-handover"] += 1
        if len(r.invs) > 1:
            out.events["c09:multi-invocation"] += 1
        if any(i.spec.get("jobserver") for i in r.invs):
            out.events["c09:inherited-jobserver"] += 1
        if problems:
            kind, sym, inv, text = problems[0]
            prop = "C09"
            if "database is locked" in sym:
                prop = "C16"      # a database-busy failure is C16's subject
            elif "on exit: expected" in sym:
                prop = "C08"      # token accounting is C08's subject
            out.violation = {"property": prop, "clause": kind, "step": 0,
                             "detail": {"argv": inv.spec["argv"], "rc": inv.rc, "text": text[-2500:],
                                        "decisions": r.tl.decisions[-40:],
                                        "all": [(p[0], p[1], p[2].spec["argv"]) for p in problems]},
                             "sig": {"symptom": sym}}
        return out
    finally:
        r.close()


class Spec:
    id = "C09"
    level = "exploration"
    rule = ("Layered graphs (2-5 leaves mostly gated, 1-4 mids over overlapping leaf subsets, 1-2 tops; some always / "
            "checksummed), 1-3 top-level invocations (redo -j1..8 [--shuffle] / redo-ifchange; own or harness-provided "
            "jobserver with 0-3 tokens at low or high fd numbers; log capture on/off; a target named twice in two "
            "spellings), all scripts succeed. The harness owns the schedule: which gated script finishes next, which "
            "finish *together with each other and/or a token arrival* while their owning redo process is SIGSTOPped "
            "(coincidence), when the next invocation starts, token steal/return. Oracle: every invocation ends with "
            "exit 0; no panic/assertion text, no EDEADLK, no 'JobServer deadlock', no token-count error; a hang is "
            "reported only with a no-progress proof (zero CPU over two windows). Non-trivial = at least one "
            "coincidence fired or one lock hand-over (locked/waiting record) happened; distinct = SHA-1 of the case.")
    assumptions = ["schedules are owned at script/token/start granularity; interleavings inside one redo process "
                   "between two syscalls are not enumerated", "residual kernel timing can make a saved case flaky "
                   "(oracles are invariants over all schedules, so this costs reproducibility, not soundness)"]

    def cases(self, tier):
        return 640 if tier == "quick" else 6400

    def strategy(self, tier):
        return cases(tier)

    def run_case(self, case, tier):
        return run_case(case, tier)


SPEC = Spec()
