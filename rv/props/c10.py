"""C10 - a kill at any moment is recovered from by simply running redo again (engine K: LD_PRELOAD crash points)."""
import collections
import json
import multiprocessing
import os
import re
import shutil
import time

from hypothesis import HealthCheck, Phase, given, seed as hseed, settings
from hypothesis import strategies as st

from .. import engine, gen, hist, runner, sut
from .. import model as M
from .. import project as P

SHIM = os.path.join(engine.VERIF, "shim", "verifshim.so")


def gen_projects(n, seed, tier):
    """n projects from the seeded Hypothesis generator (no SUT involved here)."""
    got = []
    o = {"max_dirs": 1, "max_sources": 3, "min_targets": 2, "max_targets": 4 if tier == "quick" else 6,
         "p_csum": 40, "p_always": 0, "p_ifc": 0, "p_failflag": 0, "p_default": 25}

    @settings(max_examples=n * 12, database=None, deadline=None, suppress_health_check=list(HealthCheck),
              phases=[Phase.generate])
    @hseed(seed)
    @given(gen.projects(o), st.integers(0, 1), st.integers(0, 1))
    def collect(proj, log, two):
        key = json.dumps(proj, sort_keys=True)
        if len(got) < n * 4 and all(g[3] != key for g in got):
            tops = proj["targets"][-2:] if two else proj["targets"][-1:]
            got.append((proj, log, tops, key))
    collect()

    # the handful of projects a quick run enumerates must between them show the shapes that matter for recovery:
    # pick greedily by new features rather than taking the first n
    def features(g):
        proj = g[0]
        fs = set()
        for dof, spec in proj["dofiles"].items():
            sub = "/" in dof
            outs = [stt[1] for stt in spec["body"] if stt[0] == "out"]
            for o_ in outs:
                fs.add(("subdir-" if sub else "root-") + o_)
            if any(stt[0] == "stamp" for stt in spec["body"]):
                fs.add("checksummed" + ("-subdir" if sub else ""))
            if "default" in dof:
                fs.add("default-rule")
            if any(stt[0] == "dep" and any(q in proj["targets"] for q in stt[2]) for stt in spec["body"]):
                fs.add("nested")
        if len(g[2]) > 1:
            fs.add("two-requested")
        return fs
    return [(g[0], g[1], g[2]) for g in pick_diverse(got, n, features)]


def pick_diverse(cands, n, features):
    chosen, seen = [], set()
    pool = list(cands)
    while pool and len(chosen) < n:
        best = max(pool, key=lambda g: (len(features(g) - seen), -pool.index(g)))
        pool.remove(best)
        chosen.append(best)
        seen |= features(best)
    return chosen


def _unused():
    return None


def shim_env(disk, mode_env):
    ctr = os.path.join(disk.ctl, "ctr")
    with open(ctr, "wb") as f:
        f.write(b"\0" * 4096)
    env = {"LD_PRELOAD": SHIM, "RV_SHIM_EXE": os.path.realpath(os.path.join(sut.BIN_DIR, "redo")),
           "RV_SHIM_CTR": ctr, "RV_SHIM_LOG": os.path.join(disk.ctl, "shimlog"), "RV_SHIM_ROOT": disk.root,
           "RV_SHIM_WRITES": "1"}
    env.update(mode_env)
    return env


def setup(job, disk):
    proj = job["project"]
    disk.materialize(proj)
    env = {} if job["log"] else {"REDO_LOG": "0"}
    if job["state"] == "built":
        r = runner.run_cmd(disk, ["redo-ifchange"] + job["tops"], env_extra=env)
        if r.rc != 0:
            raise runner.Inconclusive("initial build failed: " + r.text()[-300:])
        # one pending change: every source edited (so that every target has something to do)
        for i, s in enumerate(proj["sources"]):
            disk.write(s, P.source_content(s, 1))
    disk.take_trace()
    return env


def model_for(job, variant):
    m = M.Model(job["project"])
    for s in job["project"]["sources"]:
        m.user_write(s, P.source_content(s, variant))
    return m


def count_run(job):
    disk = P.Disk(hist.scratch_dir("c10c"))
    try:
        env = setup(job, disk)
        env2 = dict(env, **shim_env(disk, {}))
        r = runner.run_cmd(disk, ["redo-ifchange"] + job["tops"], env_extra=env2)
        if r.rc != 0:
            raise runner.Inconclusive("counting run failed: " + r.text()[-300:])
        with open(os.path.join(disk.ctl, "shimlog")) as f:
            log = [l for l in f.read().split("\n") if l]
        return log
    finally:
        shutil.rmtree(disk.base, ignore_errors=True)


def path_kind(p, targets):
    if p.startswith("/.redo/db.sqlite3"):
        return "db" + p[len("/.redo/db.sqlite3"):]
    if p.startswith("/.redo/log."):
        return "log"
    if p.startswith("/.redo/locks"):
        return "locks"
    if p.startswith("/.redo"):
        return "statedir"
    if p.endswith(".redo.tmp"):
        return "target-tmp"
    if p.lstrip("/") in targets:
        return "target"
    return "other"


def classify(log, n, targets):
    """Window of crash point n from the shim's call log (numbered, with pid and path)."""
    entry = None
    for l in log:
        f = l.split(" ", 3)
        if int(f[0]) == n:
            entry = f
            break
    if entry is None:
        return {"call": "?", "path": "?"}
    num, pid, call, path = entry
    before = [l.split(" ", 3) for l in log if int(l.split(" ", 1)[0]) < n]
    renamed = [f[3].lstrip("/") for f in before if f[2] == "rename" and f[3].lstrip("/") in targets]
    # the last target renamed into place by the same process before n, and whether database writes followed it
    win = "other"
    last_rename_idx = None
    for i, f in enumerate(before):
        if f[2] == "rename" and f[3].lstrip("/") in targets and f[1] == pid:
            last_rename_idx = i
    if last_rename_idx is not None:
        after = before[last_rename_idx + 1:]
        db_writes_after = [f for f in after if f[1] == pid and f[3].startswith("/.redo/db.sqlite3")]
        if len(db_writes_after) < 3:
            win = "renamed-not-recorded"
    schema_done = any(f[2] == "unlink" and f[3].endswith("db.sqlite3-journal") for f in before)
    if not schema_done:
        win = "db-being-created"
    return {"call": call, "path": path_kind(path, targets), "window": win}


LAST_W2_ROW = None


def post_crash_window(job, disk):
    """Semantic window of the crash, read off the state it left behind (before any recovery):
       W1  the database exists but has no committed schema
       W2  some target's NEW content is in place but its database row does not describe that file
       W3  some target's row already carries the NEW checksum (redo-stamp committed) while the file is not the new one
       none otherwise.  The database is inspected on a copy so that the harness does not perturb it."""
    import hashlib
    import sqlite3
    src = os.path.join(disk.root, ".redo")
    if not os.path.isdir(src):
        return "none"
    cp = os.path.join(disk.base, "redo-copy")
    shutil.rmtree(cp, ignore_errors=True)
    shutil.copytree(src, cp)
    rows = {}
    try:
        con = sqlite3.connect(os.path.join(cp, "db.sqlite3"), timeout=5)
        try:
            for r in con.execute("select name,is_generated,stamp,csum,changed_runid,failed_runid from Files"):
                rows[r[0]] = r
        finally:
            con.close()
    except sqlite3.Error as e:
        if os.path.exists(os.path.join(src, "db.sqlite3")):
            return "W1"
        return "none"
    finally:
        shutil.rmtree(cp, ignore_errors=True)
    m_new = model_for(job, 1 if job["state"] == "built" else 0)
    memo = {}
    w2 = w3 = False
    global LAST_W2_ROW
    LAST_W2_ROW = None
    for t in job["project"]["targets"]:
        new = m_new.from_scratch(t, memo)
        if not isinstance(new, bytes):
            continue
        cur = disk.read(t)
        row = rows.get(t)
        if cur == new:
            ok = False
            if row is not None and row[2]:
                try:
                    st = os.lstat(disk.abspath(t))
                    parts = str(row[2]).split("-")
                    ok = len(parts) >= 3 and parts[1] == str(st.st_size) and parts[2] == str(st.st_ino) and row[1]
                except OSError:
                    ok = False
            if not ok:
                w2 = True
                # what the row of that target says: this is what the recovery run has to work from
                if row is None or not row[1]:
                    LAST_W2_ROW = "not-generated"
                elif not row[2]:
                    LAST_W2_ROW = "generated+no-stamp"
                else:
                    LAST_W2_ROW = "generated+old-stamp"
        else:
            if row is not None and row[3] and row[3] == hashlib.sha1(new).hexdigest():
                w3 = True
    if w2:
        return "W2"
    if w3:
        return "W3"
    return "none"


def crash_job(job):
    """One crash point: build with kill-at-n, then recover, then edit+rebuild. Returns (job, violation|None, info)."""
    n, victim = job["n"], job["victim"]
    disk = P.Disk(hist.scratch_dir("c10k"))
    info = {"killed": False}
    try:
        env = setup(job, disk)
        env2 = dict(env, **shim_env(disk, {"RV_SHIM_KILL_AT": str(n), "RV_SHIM_VICTIM": victim}))
        r = runner.run_cmd(disk, ["redo-ifchange"] + job["tops"], env_extra=env2, timeout=40)
        if r.timed_out:
            if r.hang_proof:
                return job, {"property": "C10", "clause": "survivors-hang-after-kill", "step": 0,
                             "detail": {"proof": r.hang_proof, "n": n, "victim": victim},
                             "sig": {"symptom": "survivors-hang"}}, info
            return job, "inconclusive", info
        with open(os.path.join(disk.ctl, "shimlog")) as f:
            klog = [l for l in f.read().split("\n") if l]
        info["killed"] = any(int(l.split(" ", 1)[0]) >= n for l in klog)
        info["scripts_before"] = len(hist.parse_trace(disk.take_trace())[0])
        cls = classify(klog, n, set(job["project"]["targets"]))
        cls["window"] = post_crash_window(job, disk)
        if cls["window"] == "W2":
            cls["row"] = LAST_W2_ROW
        info["class"] = cls
        problems = []
        symptom = None
        if job.get("n2"):
            # double crash: the recovery run itself is killed (whole group) before its n2-th call; the state the
            # NEXT recovery starts from is judged by the worse of the two windows
            env3 = dict(env, **shim_env(disk, {"RV_SHIM_KILL_AT": str(job["n2"]), "RV_SHIM_VICTIM": "group"}))
            r2 = runner.run_cmd(disk, ["redo-ifchange"] + job["tops"], env_extra=env3, timeout=40)
            disk.take_trace()
            if r2.timed_out:
                return job, "inconclusive", info
            w2 = post_crash_window(job, disk)
            order = {"none": 0, "W3": 1, "W1": 2, "W2": 3}
            if order.get(w2, 0) > order.get(cls["window"], 0):
                cls["window"] = w2
                if w2 == "W2":
                    cls["row"] = LAST_W2_ROW
            info["double"] = True
        # --- recovery: simply run redo again ---
        rec = runner.run_cmd(disk, ["redo-ifchange"] + job["tops"], env_extra=env, timeout=40)
        disk.take_trace()
        text = rec.text()
        ctx = {"n": n, "victim": victim, "class": cls, "killed_run": {"rc": r.rc, "err": r.text()[-600:]},
               "recovery": {"rc": rec.rc, "err": text[-1200:]}, "shimlog_tail": klog[-12:]}
        if rec.timed_out:
            if rec.hang_proof:
                return job, {"property": "C10", "clause": "recovery-hangs", "step": 0,
                             "detail": dict(ctx, proof=rec.hang_proof),
                             "sig": dict(cls, symptom="recovery-hangs")}, info
            return job, "inconclusive", info
        if rec.rc == 101 or "panicked at" in text:
            symptom = "recovery-panics"
            problems.append("recovery aborted: " + hist.panic_sig(text))
        elif rec.rc != 0:
            symptom = "recovery-fails"
            problems.append("recovery exited %d" % rec.rc)
        if symptom is None:
            if "you modified it" in text:
                symptom = "override-warning"
                problems.append("recovery claims the user modified a target")
            m1 = model_for(job, 1 if job["state"] == "built" else 0)
            memo = {}
            clos = set()
            for t in job["tops"]:
                clos |= m1.closure(t)
            bad = [p for p in sorted(clos) if m1.from_scratch(p, memo) is not M.FAIL
                   and disk.read(p) != m1.from_scratch(p, memo)]
            if bad:
                symptom = symptom or "stale-after-recovery"
                problems.append("after recovery these are not from-scratch: %s" % bad)
            # (a *.redo.tmp of a target the recovery found clean may still lie around here: redo removes a stale
            # temp file when it next builds that target, which the statement does not forbid -- checked after the
            # rebuild below, when every target has been built again)
            stray_after_recovery = disk.stray_files()
        if symptom is None:
            # --- targets built afterwards keep reacting to source changes ---
            for s in job["project"]["sources"]:
                disk.write(s, P.source_content(s, 2))
            e2 = runner.run_cmd(disk, ["redo-ifchange"] + job["tops"], env_extra=env, timeout=40)
            t2 = e2.text()
            ex_e2 = set(hist.parse_trace(disk.take_trace())[0])
            m2 = model_for(job, 2)
            memo = {}
            bad = [p for p in sorted(clos) if m2.from_scratch(p, memo) is not M.FAIL
                   and disk.read(p) != m2.from_scratch(p, memo)]
            if e2.rc != 0:
                symptom = "rebuild-after-edit-fails"
                problems.append("rebuild after a further edit exited %d: %s" % (e2.rc, t2[-400:]))
            elif bad:
                symptom = "stale-after-edit"
                problems.append("after a further edit these are not from-scratch: %s" % bad)
            elif "you modified it" in t2:
                symptom = "override-warning"
                problems.append("later build claims the user modified a target")
            elif [x for x in disk.stray_files() if x.endswith(".redo.tmp") and x[:-len(".redo.tmp")] in ex_e2]:
                symptom = "tmp-left"
                problems.append("temporary files of targets that were built again survive: %s" % disk.stray_files())
            else:
                q = runner.run_cmd(disk, ["redo-ood"], env_extra=env)
                listed = [l for l in q.out.decode("utf-8", "replace").split("\n") if l]
                if q.rc != 0 or listed:
                    symptom = "ood-not-empty"
                    problems.append("redo-ood after everything: rc %d %s" % (q.rc, listed))
        if problems:
            return job, {"property": "C10", "clause": "not-recovered", "step": 0,
                         "detail": dict(ctx, problems=problems),
                         "sig": dict(cls, symptom=symptom)}, info
        return job, None, info
    except runner.Inconclusive:
        return job, "inconclusive", info
    finally:
        shutil.rmtree(disk.base, ignore_errors=True)
        hist.cleanup_scratch()


def _count_worker(job):
    try:
        return job, count_run(job)
    except runner.Inconclusive as e:
        return job, None
    finally:
        hist.cleanup_scratch()


def run_case(case, tier):
    """Replay entry point: one crash job."""
    out = hist.Outcome()
    job, v, info = crash_job(case)
    if v == "inconclusive":
        raise runner.Inconclusive("crash job inconclusive")
    out.violation = v
    out.nontrivial = bool(info.get("killed"))
    return out


class Spec:
    id = "C10"
    level = "fault_enumeration"

    def run_case(self, case, tier):
        return run_case(case, tier)


SPEC = Spec()

RULE = ("Hypothesis-generated small projects (2-4 targets quick / 2-6 thorough: stdout writers, $3 writers, "
        "checksummed, default rules, a sub-directory) in a fresh (no .redo) or built-with-pending-edits state, log "
        "capture on/off; one `redo-ifchange` at -j1 under an LD_PRELOAD shim that numbers every state-changing libc "
        "call of the redo binary inside the project (rename, unlink, open O_CREAT/O_TRUNC, write/pwrite/writev incl. "
        "SQLite db/WAL/shm and logs, ftruncate, mkdir). Per project and state the crash points 1..N are ENUMERATED "
        "(every point in quick for the first projects, every k-th for the rest; all in thorough), each with victim = "
        "the calling process and = the whole process group, killed immediately before the call. Then: recovery "
        "`redo-ifchange` of the same targets must terminate, exit 0, not claim 'you modified it', leave every target "
        "from-scratch and no *.redo.tmp; then every source is edited and a further redo-ifchange must again give "
        "from-scratch contents (exposes targets frozen as override / treated as source), and redo-ood must be empty. "
        "Non-trivial = the kill really happened (n <= calls issued) ; distinct = (project, state, log, n, victim).")


def run_check(tier, seed):
    t0 = time.time()
    workers = int(os.environ.get("RV_WORKERS", "16"))
    nproj = 6 if tier == "quick" else 40
    projects = gen_projects(nproj, seed, tier)
    known = engine.load_known()
    base_jobs = []
    for i, (proj, log, tops) in enumerate(projects):
        for state in ("built", "fresh"):
            base_jobs.append({"project": proj, "log": log, "tops": tops, "state": state, "pidx": i})
    ctx = multiprocessing.get_context("fork")
    viol = []
    known_hits = collections.Counter()
    known_samples = {}
    classes = collections.Counter()
    evals = 0
    nontrivial = set()
    inconclusive = 0
    samples = []
    points_total = 0
    # regression / known replays first
    rdir = os.path.join(engine.VERIF, "replays", "C10")
    known_lines = []
    if os.path.isdir(rdir):
        for fn in sorted(os.listdir(rdir)):
            if fn.endswith(".json") and (fn.startswith("reg-") or fn.startswith("known-")):
                with open(os.path.join(rdir, fn)) as f:
                    rp = json.load(f)
                job, v, info = crash_job(rp["case"])
                evals += 1
                if v not in (None, "inconclusive"):
                    k = engine.match_known("C10", v["sig"], known)
                    if k:
                        known_hits[k["id"]] += 1
                    else:
                        viol.append((os.path.join(rdir, fn), job, v))
    with ctx.Pool(workers) as pool:
        counted = pool.map(_count_worker, base_jobs)
        jobs = []
        for job, log in counted:
            if log is None:
                inconclusive += 1
                continue
            total = len(log)
            points_total += total
            # quick: every point for the first two projects, every 3rd (offset by seed) for the others
            step = 1 if (tier != "quick" or job["pidx"] < 2) else 3
            for n in range(1 + (seed % step), total + 1, step):
                for victim in ("self", "group"):
                    jobs.append(dict(job, n=n, victim=victim, total=total))
        if tier != "quick":
            # double crashes: for every project/state a seeded sample of (n, n2) pairs
            import random
            rng = random.Random(seed * 7919 + 13)
            for job, log in counted:
                if log is None:
                    continue
                total = len(log)
                for _ in range(10):
                    jobs.append(dict(job, n=rng.randint(1, total), n2=rng.randint(1, max(2, total // 2)),
                                     victim=rng.choice(["self", "group"]), total=total))
        w3_points = []
        second_stage = False
        import itertools
        stream = pool.imap_unordered(crash_job, jobs, chunksize=2)
        while True:
            try:
                job, v, info = next(stream)
            except StopIteration:
                if second_stage or not w3_points:
                    break
                # second stage -- targeted double crashes: wherever the first kill left a target whose NEW checksum is
                # committed while its file is still the old one (window W3), the recovery run is killed too, before
                # each of its state-changing calls (every 3rd in quick)
                second_stage = True
                step2 = 3 if tier == "quick" else 1
                jobs2 = [dict(j, n2=n2, victim="group") for j in w3_points
                         for n2 in range(1 + (seed % step2), j["total"] + 1, step2)]
                stream = pool.imap_unordered(crash_job, jobs2, chunksize=2)
                continue
            evals += 1
            if v == "inconclusive":
                inconclusive += 1
                continue
            if not job.get("n2") and info.get("class", {}).get("window") == "W3" and job["victim"] == "group" \
                    and len(w3_points) < (12 if tier == "quick" else 200):
                w3_points.append(job)
            if info.get("killed"):
                nontrivial.add(engine.case_hash({k: job.get(k) for k in ("project", "state", "log", "n", "victim", "n2")}))
            c = info.get("class", {})
            classes["killed-before:%s:%s" % (c.get("call"), c.get("path"))] += 1
            classes["victim:" + job["victim"]] += 1
            classes["state:" + job["state"]] += 1
            if info.get("double"):
                classes["double-crash(recovery run killed too)"] += 1
                if second_stage:
                    classes["double-crash/first-kill-left-a-committed-checksum-without-its-file(W3)"] += 1
            if len(samples) < 3 and info.get("killed") and evals % 37 == 5:
                samples.append({"state": job["state"], "n": job["n"], "of": job["total"], "victim": job["victim"],
                                "class": c, "tops": job["tops"], "dofiles": job["project"]["dofiles"]})
            if v is not None:
                k = engine.match_known("C10", v["sig"], known)
                if k is not None:
                    known_hits[k["id"]] += 1
                    known_samples.setdefault(k["id"], (job, v))
                else:
                    viol.append((None, job, v))
    code = 0
    for kid in known_hits:
        k = [x for x in known if x["id"] == kid][0]
        print("KNOWN-FINDING: property=C10 %s (%s)" % (k["what"], kid))
    seen_sig = set()
    for path, job, v in viol:
        sk = json.dumps(v["sig"], sort_keys=True)
        if sk in seen_sig and len(seen_sig) > 0 and path is None:
            continue
        seen_sig.add(sk)
        if path is None:
            path = engine.write_replay("C10", {k: job[k] for k in job if k != "pidx"}, v)
        print("VIOLATION property=C10 replay=%s" % path)
        print("  clause=%s sig=%s" % (v["clause"], json.dumps(v["sig"])))
        code = 1
    ev = {"property_id": "C10", "tier": tier, "seed": seed, "level": "fault_enumeration",
          "coverage": {"evaluations": evals, "distinct_nontrivial": len(nontrivial), "rule": RULE,
                       "samples": samples or [{"note": "no sample kept"}],
                       "projects": len(projects), "project_states": len(base_jobs),
                       "crash_points_in_counting_runs": points_total,
                       "exhaustive": tier != "quick",
                       "exhaustive_note": ("every crash point of every generated project/state" if tier != "quick" else
                                           "every crash point for 2 projects x 2 states, every 3rd point for the rest"),
                       "classes": dict(sorted(classes.items())), "known_finding_hits": dict(known_hits),
                       "violations_total_before_dedup": len(viol), "inconclusive_cases": inconclusive,
                       "workers": workers},
          "assumptions": ["crash = process death (SIGKILL); power loss / fsync durability is out of scope",
                          "-j1 so that call numbering is deterministic between the counting run and the crash runs"],
          "wall_s": round(time.time() - t0, 2), "violations": len(viol)}
    return code, ev
