"""C16, write-lock tier: no redo process may keep other commands out of the database for as long as a build script
likes.  A script feeds redo-stamp through a producer that the harness holds at a gate (redo-stamp is running and waits
for its input); meanwhile a handful of other commands start.  They must all finish successfully -- they are given more
than SQLite's 60 s busy timeout, so "blocked behind a write lock held across the script's pause" shows up as the
`database is locked` failure the property names.  On a correct tree they finish in milliseconds."""
import os
import subprocess
import time

from hypothesis import strategies as st

from .. import hist, runner, sched, sgen
from .c16 import DBERR

PATIENCE = 75.0


@st.composite
def cases(draw, tier):
    dof = {"slow.do": {"v": 1, "body": [["dep", 1, ["s0"]], ["out", draw(st.sampled_from(["stdout", "file"]))],
                                         ["stampgate", 7]]},
           "other.do": {"v": 1, "body": [["dep", 1, ["s0"]], ["out", "stdout"]]},
           "third.do": {"v": 1, "body": [["dep", 1, ["s1"]], ["out", "stdout"], ["stamp"]]},
           "top.do": {"v": 1, "body": [["dep", 1, ["slow"]], ["out", "stdout"]]}}
    proj = {"dirs": [""], "sources": ["s0", "s1"], "dofiles": dof, "targets": ["slow", "other", "third", "top"],
            "watch": []}
    build = draw(st.sampled_from([["redo", "slow"], ["redo-ifchange", "top"], ["redo", "-j2", "slow", "third"]]))
    pool = [["redo-targets"], ["redo-sources"], ["redo-ood"], ["redo-ifchange", "other"], ["redo", "third"],
            ["redo-ifchange", "other", "third"], ["redo-log", "--no-pretty", "slow"]]
    others = [pool[draw(st.integers(0, len(pool) - 1))] for _ in range(draw(st.integers(1, 5)))]
    return {"project": proj, "hold": True, "invs": [{"argv": build, "cwd": "", "env": {} if draw(st.integers(0, 1)) else
                                                     {"REDO_LOG": "0"}, "jobserver": None}],
            "others": others, "prebuild": draw(st.integers(0, 1)), "schedule": [], "sopts": {}}


def run_case(case, tier):
    out = hist.Outcome()
    r = sched.SchedRunner(case, tag="c16h")
    procs = []
    try:
        if case.get("prebuild"):
            pr = runner.run_cmd(r.disk, ["redo-ifchange", "other", "third"], env_extra={"REDO_LOG": "0"})
            if pr.rc != 0:
                raise runner.Inconclusive("prebuild failed")
            r.disk.take_trace()
        inv = r.invs[0]
        r.start_inv(inv)
        gate = None
        t_end = time.time() + 30
        while time.time() < t_end and gate is None:
            r.quiescent(timeout=0.5)
            r.reap()
            for g in r.pending_gates():
                if g.gid == "7":
                    gate = g
            if not inv.alive():
                break
        if gate is None:
            raise runner.Inconclusive("the stamp producer never reached its gate: %s" % r.inv_text(inv)[-300:])
        # redo-stamp is running now (it is the other end of the producer's pipe) and has nothing to read
        time.sleep(0.05)
        t0 = time.time()
        for i, argv in enumerate(case["others"]):
            env = runner.base_env(r.disk, {"REDO_LOG": "0"})
            fo = open(os.path.join(r.disk.ctl, "ho.%d" % i), "wb")
            p = subprocess.Popen(argv, cwd=r.disk.root, env=env, stdin=subprocess.DEVNULL, stdout=fo,
                                 stderr=subprocess.STDOUT, start_new_session=True)
            fo.close()
            procs.append(p)
        problems = []
        slowest = 0.0
        for i, p in enumerate(procs):
            try:
                p.wait(timeout=max(0.1, t0 + PATIENCE - time.time()))
            except subprocess.TimeoutExpired:
                pass
            slowest = max(slowest, time.time() - t0)
            with open(os.path.join(r.disk.ctl, "ho.%d" % i), "rb") as f:
                text = f.read().decode("utf-8", "replace")
            argv = case["others"][i]
            if p.returncode is None:
                problems.append({"argv": argv, "symptom": "still blocked after %d s while a script's redo-stamp waits "
                                                          "for input" % PATIENCE, "text": text[-400:]})
                continue
            m = DBERR.search(text)
            if m:
                problems.append({"argv": argv, "rc": p.returncode, "symptom": m.group(0), "text": text[-600:]})
            elif p.returncode == 101 or "panicked at" in text:
                out.violation = {"property": "C09", "clause": "panic", "step": 0,
                                 "detail": {"argv": argv, "text": text[-1500:]}, "sig": {"symptom": hist.panic_sig(text)}}
                return out
            elif p.returncode != 0 and not (argv[0] == "redo-log" and p.returncode == 24):
                problems.append({"argv": argv, "rc": p.returncode, "symptom": "exit %d" % p.returncode,
                                 "text": text[-600:]})
        out.commands = 1 + len(procs)
        out.nontrivial = True
        out.events["c16h:commands-started-while-redo-stamp-waits-for-its-input"] += len(procs)
        out.events["c16h:slowest-command-%s" % ("<1s" if slowest < 1 else ("<10s" if slowest < 10 else ">=10s"))] += 1
        # let the build finish
        t_end = time.time() + 30
        while time.time() < t_end and inv.alive():
            for g in r.pending_gates():
                r.release_gate(g)
            r.quiescent(timeout=0.3)
            r.reap()
        if inv.alive():
            raise runner.Inconclusive("the build did not finish after the gate was opened")
        if problems:
            out.violation = {"property": "C16", "clause": "blocked-by-a-write-lock-held-across-a-script-pause", "step": 0,
                             "detail": {"build": inv.spec["argv"], "problems": problems[:5]},
                             "sig": {"symptom": problems[0]["symptom"], "tier": "hold"}}
            return out
        text = r.inv_text(inv)
        if inv.rc != 0:
            m = DBERR.search(text)
            out.violation = {"property": "C16" if m else "C09", "clause": "spurious-failure", "step": 0,
                             "detail": {"build": inv.spec["argv"], "rc": inv.rc, "text": text[-800:]},
                             "sig": {"symptom": m.group(0) if m else "exit %d" % inv.rc, "tier": "hold"}}
        return out
    finally:
        for p in procs:
            runner.kill_session(p.pid)
        r.close()


class Spec:
    id = "C16"
    level = "exploration"
    rule = ("Write-lock tier: a build (redo slow / redo-ifchange top / redo -j2 slow third) whose script pipes its "
            "output into redo-stamp through a producer that the harness holds at a gate; while redo-stamp waits for "
            "its input, 1-5 other commands (redo-targets, redo-sources, redo-ood, redo-log, redo / redo-ifchange of "
            "unrelated targets) are started and given 75 s (more than SQLite's busy timeout) to finish; then the gate "
            "is opened. Oracle: each of them exits 0 without a database-busy error and is not still blocked after 75 s; "
            "the build itself succeeds. Non-trivial = the producer reached its gate and the commands were started.")
    assumptions = ["a command that is merely slow is never a violation; only the busy error (or still being blocked "
                   "after 75 s while the script is paused) is"]

    def accepts(self, case):
        return "hold" in case

    def cases(self, tier):
        return 64 if tier == "quick" else 640

    def strategy(self, tier):
        return cases(tier)

    def run_case(self, case, tier):
        return run_case(case, tier)


SPEC = Spec()
