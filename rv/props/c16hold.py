"""C16, write-lock tier: no redo process may keep other commands out of the database for as long as a build script
likes.  A script feeds redo-stamp through a producer that the harness holds at a gate (redo-stamp is running and waits
for its input); meanwhile a handful of other commands start.  They must all finish successfully -- they are given more
than SQLite's 60 s busy timeout, so "blocked behind a write lock held across the script's pause" shows up as the
`database is locked` failure the property names.  On a correct tree they finish in milliseconds."""
import os
import subprocess
import time

from hypothesis import strategies as st

from .. import hist, runner, sched, sgen
from .c16 import DBERR

PATIENCE = 75.0


@st.composite
def cases(draw, tier):
    dof = {"slow.do": {"v": 1, "body": [["dep", 1, ["s0"]], ["out", draw(st.sampled_from(["stdout", "file"]))],
                                         ["stampgate", 7]]},
           "other.do": {"v": 1, "body": [["dep", 1, ["s0"]], ["out", "stdout"]]},
           "third.do": {"v": 1, "body": [["dep", 1, ["s1"]], ["out", "stdout"], ["stamp"]]},
           "top.do": {"v": 1, "body": [["dep", 1, ["slow"]], ["out", "stdout"]]}}
    proj = {"dirs": [""], "sources": ["s0", "s1"], "dofiles": dof, "targets": ["slow", "other", "third", "top"],
            "watch": []}
    build = draw(st.sampled_from([["redo", "slow"], ["redo-ifchange", "top"], ["redo", "-j2", "slow", "third"]]))
    pool = [["redo-targets"], ["redo-sources"], ["redo-ood"], ["redo-ifchange", "other"], ["redo", "third"],
            ["redo-ifchange", "other", "third"], ["redo-log", "--no-pretty", "slow"]]
    others = [pool[draw(st.integers(0, len(pool) - 1))] for _ in range(draw(st.integers(1, 5)))]
    kind = draw(st.sampled_from(["stamp"] * 5 + ["ood-pipe"] * 2 + ["frozen"] * 3))
    if kind == "frozen":
        # a writer that stalls for 8 s in the middle of what it is doing (suspended, swapped out ...): frozen by the
        # LD_PRELOAD shim immediately before its n-th state-changing call, most of which lie inside write transactions
        dof["slow.do"]["body"] = [stt if stt[0] != "stampgate" else ["stamp"] for stt in dof["slow.do"]["body"]]
        others = [o for o in others if o[0] != "redo-log"] or [["redo-targets"]]
        return {"project": proj, "hold": True, "holdkind": kind, "n": draw(st.integers(1, 130)),
                "log": draw(st.integers(0, 1)), "others": others, "prebuild": draw(st.integers(0, 1)),
                "invs": [], "schedule": [], "sopts": {}}
    if kind == "ood-pipe":
        # a query whose reader is slow: redo-ood writes more than its (4 KiB) stdout pipe holds and nobody drains it
        nlong = draw(st.integers(26, 34))
        longs = ["%s-%03d.q" % ("n" * 170, i) for i in range(nlong)]
        dof["default.q.do"] = {"v": 1, "body": [["dep", 1, ["s0"]], ["out", "stdout"]]}
        proj["targets"] = proj["targets"] + longs
        proj["long_targets"] = longs
        others = [o for o in others if o[0] != "redo-log"] or [["redo-targets"]]
    return {"project": proj, "hold": True, "holdkind": kind,
            "invs": [{"argv": build, "cwd": "", "env": {} if draw(st.integers(0, 1)) else {"REDO_LOG": "0"},
                      "jobserver": None}],
            "others": others, "prebuild": draw(st.integers(0, 1)), "schedule": [], "sopts": {}}


def run_ood_pipe(case, tier):
    """redo-ood with an undrained stdout pipe while other commands start."""
    import fcntl
    out = hist.Outcome()
    disk = hist.P.Disk(hist.scratch_dir("c16o"))
    procs = []
    holder = None
    rfd = None
    try:
        disk.materialize(case["project"])
        longs = case["project"]["long_targets"]
        pr = runner.run_cmd(disk, ["redo-ifchange", "other", "third"] + longs, env_extra={"REDO_LOG": "0"}, timeout=120)
        if pr.rc != 0:
            raise runner.Inconclusive("prebuild failed: %s" % pr.text()[-300:])
        disk.take_trace()
        disk.write("s0", hist.P.source_content("s0", 1))
        rfd, wfd = os.pipe()
        try:
            fcntl.fcntl(wfd, 1031, 4096)        # F_SETPIPE_SZ
        except OSError:
            pass
        env = runner.base_env(disk, {"REDO_LOG": "0"})
        holder = subprocess.Popen(["redo-ood"], cwd=disk.root, env=env, stdin=subprocess.DEVNULL, stdout=wfd,
                                  stderr=subprocess.PIPE, start_new_session=True)
        os.close(wfd)
        # wait until it sits in write() on the full pipe
        t_end = time.time() + 20
        blocked = False
        while time.time() < t_end and holder.poll() is None:
            st_, sc, _, _ = sched.proc_state(holder.pid)
            if st_ == "S" and sc == "1":
                time.sleep(0.05)
                st2, sc2, _, _ = sched.proc_state(holder.pid)
                if st2 == "S" and sc2 == "1":
                    blocked = True
                    break
            time.sleep(0.01)
        if not blocked:
            raise runner.Inconclusive("redo-ood did not block on its output (rc %r)" % holder.poll())
        t0 = time.time()
        for i, argv in enumerate(case["others"]):
            fo = open(os.path.join(disk.ctl, "ho.%d" % i), "wb")
            p = subprocess.Popen(argv, cwd=disk.root, env=env, stdin=subprocess.DEVNULL, stdout=fo,
                                 stderr=subprocess.STDOUT, start_new_session=True)
            fo.close()
            procs.append(p)
        problems = []
        for i, p in enumerate(procs):
            try:
                p.wait(timeout=max(0.1, t0 + PATIENCE - time.time()))
            except subprocess.TimeoutExpired:
                pass
            with open(os.path.join(disk.ctl, "ho.%d" % i), "rb") as f:
                text = f.read().decode("utf-8", "replace")
            argv = case["others"][i]
            if p.returncode is None:
                problems.append({"argv": argv, "symptom": "still blocked after %d s while redo-ood waits for its reader"
                                 % PATIENCE, "text": text[-400:]})
                continue
            m = DBERR.search(text)
            if m:
                problems.append({"argv": argv, "rc": p.returncode, "symptom": m.group(0), "text": text[-600:]})
            elif p.returncode != 0:
                problems.append({"argv": argv, "rc": p.returncode, "symptom": "exit %d" % p.returncode,
                                 "text": text[-600:]})
        out.commands = 1 + len(procs)
        out.nontrivial = True
        out.events["c16h:commands-started-while-redo-ood-waits-for-its-reader"] += len(procs)
        # now read what redo-ood has to say
        data = b""
        os.set_blocking(rfd, True)
        while True:
            b = os.read(rfd, 65536)
            if not b:
                break
            data += b
        holder.wait(timeout=30)
        listed = set(data.decode("utf-8", "replace").split())
        if holder.returncode != 0 or not set(longs) <= listed:
            err = holder.stderr.read().decode("utf-8", "replace") if holder.stderr else ""
            problems.append({"argv": ["redo-ood"], "rc": holder.returncode, "symptom": (DBERR.search(err) or [None])[0]
                             or "redo-ood incomplete", "text": err[-400:], "missing": len(set(longs) - listed)})
        if problems:
            out.violation = {"property": "C16", "clause": "blocked-by-a-write-lock-held-across-a-slow-reader", "step": 0,
                             "detail": {"problems": problems[:5]},
                             "sig": {"symptom": problems[0]["symptom"], "tier": "hold", "holder": "redo-ood"}}
        return out
    finally:
        for p in procs:
            runner.kill_session(p.pid)
        if holder is not None:
            runner.kill_session(holder.pid)
        if rfd is not None:
            try:
                os.close(rfd)
            except OSError:
                pass
        import shutil
        shutil.rmtree(disk.base, ignore_errors=True)


FREEZE_S = 8.0


def run_frozen(case, tier):
    import signal
    from .. import sut
    from .c06stop import stopped_pids
    out = hist.Outcome()
    disk = hist.P.Disk(hist.scratch_dir("c16f"))
    procs = []
    p1 = None
    try:
        disk.materialize(case["project"])
        env0 = {} if case["log"] else {"REDO_LOG": "0"}
        if case.get("prebuild"):
            pr = runner.run_cmd(disk, ["redo-ifchange", "top", "other", "third"], env_extra=env0)
            if pr.rc != 0:
                raise runner.Inconclusive("prebuild failed")
            disk.write("s0", hist.P.source_content("s0", 1))
            disk.write("s1", hist.P.source_content("s1", 1))
        disk.take_trace()
        ctr = os.path.join(disk.ctl, "ctr")
        with open(ctr, "wb") as f:
            f.write(b"\0" * 4096)
        env1 = runner.base_env(disk, env0)
        env1.update({"LD_PRELOAD": os.path.join(os.path.dirname(os.path.dirname(os.path.dirname(os.path.abspath(__file__)))),
                                                "shim", "verifshim.so"),
                     "RV_SHIM_EXE": os.path.realpath(os.path.join(sut.BIN_DIR, "redo")), "RV_SHIM_CTR": ctr,
                     "RV_SHIM_ROOT": disk.root, "RV_SHIM_WRITES": "1", "RV_SHIM_STOP_AT": str(case["n"])})
        o1 = open(os.path.join(disk.ctl, "out1"), "wb")
        p1 = subprocess.Popen(["redo-ifchange", "top", "other", "third"], cwd=disk.root, env=env1,
                              stdin=subprocess.DEVNULL, stdout=o1, stderr=subprocess.STDOUT, start_new_session=True)
        o1.close()
        t0 = time.time()
        frozen = []
        while time.time() - t0 < 20 and p1.poll() is None:
            frozen = stopped_pids(p1.pid)
            if frozen:
                break
            time.sleep(0.002)
        if not frozen:
            p1.wait(timeout=30)
            out.events["c16h:freeze-point-beyond-the-end"] += 1
            return out
        t1 = time.time()
        env = runner.base_env(disk, {"REDO_LOG": "0"})
        for i, argv in enumerate(case["others"]):
            fo = open(os.path.join(disk.ctl, "ho.%d" % i), "wb")
            p = subprocess.Popen(argv, cwd=disk.root, env=env, stdin=subprocess.DEVNULL, stdout=fo,
                                 stderr=subprocess.STDOUT, start_new_session=True)
            fo.close()
            procs.append(p)
        blocked = False
        while time.time() - t1 < FREEZE_S:
            if all(p.poll() is not None for p in procs):
                break
            time.sleep(0.02)
        else:
            blocked = True
        for q in frozen:
            try:
                os.kill(q, signal.SIGCONT)
            except OSError:
                pass
        problems = []
        for i, p in enumerate(procs):
            try:
                p.wait(timeout=max(0.1, t1 + PATIENCE - time.time()))
            except subprocess.TimeoutExpired:
                pass
            with open(os.path.join(disk.ctl, "ho.%d" % i), "rb") as f:
                text = f.read().decode("utf-8", "replace")
            argv = case["others"][i]
            if p.returncode is None:
                problems.append({"argv": argv, "symptom": "still blocked %d s after the writer went on" % PATIENCE})
                continue
            m = DBERR.search(text)
            if m:
                problems.append({"argv": argv, "rc": p.returncode, "symptom": m.group(0), "text": text[-600:]})
            elif p.returncode != 0:
                problems.append({"argv": argv, "rc": p.returncode, "symptom": "exit %d" % p.returncode,
                                 "text": text[-600:]})
        try:
            p1.wait(timeout=40)
        except subprocess.TimeoutExpired:
            raise runner.Inconclusive("the frozen writer did not finish")
        with open(os.path.join(disk.ctl, "out1"), "rb") as f:
            t1text = f.read().decode("utf-8", "replace")
        out.commands = 1 + len(procs)
        out.nontrivial = True
        out.events["c16h:writer-frozen-before-a-state-changing-call"] += 1
        if blocked:
            out.events["c16h:writer-frozen-while-others-had-to-wait-%ds" % int(FREEZE_S)] += 1
        m1 = DBERR.search(t1text)
        if p1.returncode != 0 and m1:
            problems.append({"argv": ["redo-ifchange", "top", "other", "third"], "rc": p1.returncode,
                             "symptom": m1.group(0), "text": t1text[-600:]})
        if problems:
            out.violation = {"property": "C16", "clause": "failed-although-the-writer-only-stalled", "step": 0,
                             "detail": {"n": case["n"], "problems": problems[:5]},
                             "sig": {"symptom": problems[0]["symptom"], "tier": "hold", "holder": "frozen-writer"}}
        return out
    finally:
        for p in procs:
            runner.kill_session(p.pid)
        if p1 is not None:
            runner.kill_session(p1.pid)
        import shutil
        shutil.rmtree(disk.base, ignore_errors=True)


def run_case(case, tier):
    if case.get("holdkind") == "ood-pipe":
        return run_ood_pipe(case, tier)
    if case.get("holdkind") == "frozen":
        return run_frozen(case, tier)
    out = hist.Outcome()
    r = sched.SchedRunner(case, tag="c16h")
    procs = []
    try:
        if case.get("prebuild"):
            pr = runner.run_cmd(r.disk, ["redo-ifchange", "other", "third"], env_extra={"REDO_LOG": "0"})
            if pr.rc != 0:
                raise runner.Inconclusive("prebuild failed")
            r.disk.take_trace()
        inv = r.invs[0]
        r.start_inv(inv)
        gate = None
        t_end = time.time() + 30
        while time.time() < t_end and gate is None:
            r.quiescent(timeout=0.5)
            r.reap()
            for g in r.pending_gates():
                if g.gid == "7":
                    gate = g
            if not inv.alive():
                break
        if gate is None:
            raise runner.Inconclusive("the stamp producer never reached its gate: %s" % r.inv_text(inv)[-300:])
        # redo-stamp is running now (it is the other end of the producer's pipe) and has nothing to read
        time.sleep(0.05)
        t0 = time.time()
        for i, argv in enumerate(case["others"]):
            env = runner.base_env(r.disk, {"REDO_LOG": "0"})
            fo = open(os.path.join(r.disk.ctl, "ho.%d" % i), "wb")
            p = subprocess.Popen(argv, cwd=r.disk.root, env=env, stdin=subprocess.DEVNULL, stdout=fo,
                                 stderr=subprocess.STDOUT, start_new_session=True)
            fo.close()
            procs.append(p)
        problems = []
        slowest = 0.0
        for i, p in enumerate(procs):
            try:
                p.wait(timeout=max(0.1, t0 + PATIENCE - time.time()))
            except subprocess.TimeoutExpired:
                pass
            slowest = max(slowest, time.time() - t0)
            with open(os.path.join(r.disk.ctl, "ho.%d" % i), "rb") as f:
                text = f.read().decode("utf-8", "replace")
            argv = case["others"][i]
            if p.returncode is None:
                problems.append({"argv": argv, "symptom": "still blocked after %d s while a script's redo-stamp waits "
                                                          "for input" % PATIENCE, "text": text[-400:]})
                continue
            m = DBERR.search(text)
            if m:
                problems.append({"argv": argv, "rc": p.returncode, "symptom": m.group(0), "text": text[-600:]})
            elif p.returncode == 101 or "panicked at" in text:
                out.violation = {"property": "C09", "clause": "panic", "step": 0,
                                 "detail": {"argv": argv, "text": text[-1500:]}, "sig": {"symptom": hist.panic_sig(text)}}
                return out
            elif p.returncode != 0 and not (argv[0] == "redo-log" and p.returncode == 24):
                problems.append({"argv": argv, "rc": p.returncode, "symptom": "exit %d" % p.returncode,
                                 "text": text[-600:]})
        out.commands = 1 + len(procs)
        out.nontrivial = True
        out.events["c16h:commands-started-while-redo-stamp-waits-for-its-input"] += len(procs)
        out.events["c16h:slowest-command-%s" % ("<1s" if slowest < 1 else ("<10s" if slowest < 10 else ">=10s"))] += 1
        # let the build finish
        t_end = time.time() + 30
        while time.time() < t_end and inv.alive():
            for g in r.pending_gates():
                r.release_gate(g)
            r.quiescent(timeout=0.3)
            r.reap()
        if inv.alive():
            raise runner.Inconclusive("the build did not finish after the gate was opened")
        if problems:
            out.violation = {"property": "C16", "clause": "blocked-by-a-write-lock-held-across-a-script-pause", "step": 0,
                             "detail": {"build": inv.spec["argv"], "problems": problems[:5]},
                             "sig": {"symptom": problems[0]["symptom"], "tier": "hold"}}
            return out
        text = r.inv_text(inv)
        if inv.rc != 0:
            m = DBERR.search(text)
            out.violation = {"property": "C16" if m else "C09", "clause": "spurious-failure", "step": 0,
                             "detail": {"build": inv.spec["argv"], "rc": inv.rc, "text": text[-800:]},
                             "sig": {"symptom": m.group(0) if m else "exit %d" % inv.rc, "tier": "hold"}}
        return out
    finally:
        for p in procs:
            runner.kill_session(p.pid)
        r.close()


class Spec:
    id = "C16"
    level = "exploration"
    rule = ("Write-lock tier: a build (redo slow / redo-ifchange top / redo -j2 slow third) whose script pipes its "
            "output into redo-stamp through a producer that the harness holds at a gate; while redo-stamp waits for "
            "its input, 1-5 other commands (redo-targets, redo-sources, redo-ood, redo-log, redo / redo-ifchange of "
            "unrelated targets) are started and given 75 s (more than SQLite's busy timeout) to finish; then the gate "
            "is opened. Oracle: each of them exits 0 without a database-busy error and is not still blocked after 75 s; "
            "the build itself succeeds. Non-trivial = the producer reached its gate and the commands were started.")
    assumptions = ["a command that is merely slow is never a violation; only the busy error (or still being blocked "
                   "after 75 s while the script is paused) is"]

    def accepts(self, case):
        return "hold" in case

    def cases(self, tier):
        return 64 if tier == "quick" else 640

    def strategy(self, tier):
        return cases(tier)

    def run_case(self, case, tier):
        return run_case(case, tier)


SPEC = Spec()
