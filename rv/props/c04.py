"""C04 - targets are replaced atomically and only by complete, unambiguous output (fault enumeration)."""
import ctypes
import hashlib
import os
import re
import shutil
import struct
import threading
import time

from hypothesis import strategies as st

from .. import engine, hist, runner
from .. import project as P

BEHAVIOURS = ["stdout", "file", "none", "both", "direct", "direct+stdout", "file-then-rm", "stdout-then-exit",
              "file-then-exit", "partial-then-kill-KILL", "partial-then-kill-TERM", "partial-then-kill-INT",
              "partial-then-kill-PIPE", "partial-file-then-kill-KILL"]
SIZES = [0, 1, 4095, 4096, 65537, "big"]
PRIORS = ["absent", "generated", "userfile"]
COMMANDS = ["redo", "ifchange-parent"]
SIGNUM = {"KILL": 9, "TERM": 15, "INT": 2, "PIPE": 13}

IN_MODIFY, IN_MOVED_TO, IN_CREATE, IN_DELETE, IN_CLOSE_WRITE, IN_MOVED_FROM = 0x2, 0x80, 0x100, 0x200, 0x8, 0x40
_libc = ctypes.CDLL("libc.so.6", use_errno=True)


def payload(seed, size):
    """Deterministic arbitrary bytes (NUL, non-UTF-8, no trailing newline unless it happens)."""
    if size == "big":
        size = 1024 * 1024 + (seed % 3) * 1024 * 1024 // 2 + seed % 977
    out = bytearray()
    h = hashlib.sha256(b"rv%d" % seed).digest()
    while len(out) < size:
        h = hashlib.sha256(h).digest()
        out += h
    return bytes(out[:size])


def script_for(b, exitcode):
    pl = '"$RV_CTL/payload"'
    half = 'head -c "$RV_HALF" %s' % pl
    if b == "stdout":
        return "cat %s" % pl
    if b == "file":
        return 'cat %s > "$3"' % pl
    if b == "none":
        return ":"
    if b == "both":
        return 'cat %s; cat %s > "$3"' % (pl, pl)
    if b == "direct":
        return 'cat %s > "$1"' % pl
    if b == "direct+stdout":
        return 'cat %s > "$1"; cat %s' % (pl, pl)
    if b == "file-then-rm":
        return 'cat %s > "$3"; rm -f "$3"' % pl
    if b == "stdout-then-exit":
        return "cat %s; exit %d" % (pl, exitcode)
    if b == "file-then-exit":
        return 'cat %s > "$3"; exit %d' % (pl, exitcode)
    if b.startswith("partial-then-kill-"):
        return "%s; kill -%s $$; sleep 5" % (half, b.rsplit("-", 1)[1])
    if b.startswith("partial-file-then-kill-"):
        return '%s > "$3"; kill -%s $$; sleep 5' % (half, b.rsplit("-", 1)[1])
    raise ValueError(b)


@st.composite
def cases(draw, tier):
    # the cross product is enumerated by index so that one pass covers it completely; extra cases are random
    n = len(BEHAVIOURS) * len(SIZES) * len(PRIORS) * len(COMMANDS)
    i = draw(st.integers(0, n - 1))
    return case_from_index(i, draw(st.integers(0, 1)), draw(st.integers(0, 10 ** 6)),
                           draw(st.sampled_from([1, 2, 3, 7, 99, 255])), draw(st.sampled_from(["", "sub", "sub/deep"])))


def case_from_index(i, log, seed, exitcode, tdir):
    b = BEHAVIOURS[i % len(BEHAVIOURS)]
    i //= len(BEHAVIOURS)
    s = SIZES[i % len(SIZES)]
    i //= len(SIZES)
    pr = PRIORS[i % len(PRIORS)]
    i //= len(PRIORS)
    cmd = COMMANDS[i % len(COMMANDS)]
    return {"behaviour": b, "size": s, "prior": pr, "command": cmd, "log": log, "seed": seed, "exit": exitcode,
            "dir": tdir}


class Watcher:
    """inotify watch on the target's directory + a reader that re-reads the target in a loop."""

    def __init__(self, dirpath, name):
        self.dir = dirpath
        self.name = name
        self.path = os.path.join(dirpath, name)
        self.fd = _libc.inotify_init1(os.O_NONBLOCK)
        mask = IN_MODIFY | IN_MOVED_TO | IN_CREATE | IN_DELETE | IN_CLOSE_WRITE | IN_MOVED_FROM
        self.wd = _libc.inotify_add_watch(self.fd, dirpath.encode(), mask)
        self.stop = False
        self.seen = {}      # digest -> length ; None key for ENOENT
        self.reads = 0
        self.events = []
        self.t = threading.Thread(target=self.loop, daemon=True)

    def start(self):
        self.t.start()

    def loop(self):
        while not self.stop:
            try:
                with open(self.path, "rb") as f:
                    data = f.read()
                key = hashlib.sha1(data).hexdigest()
                self.seen.setdefault(key, len(data))
            except FileNotFoundError:
                self.seen.setdefault(None, 0)
            except OSError:
                pass
            self.reads += 1

    def finish(self):
        self.stop = True
        self.t.join(timeout=5)
        while True:
            try:
                buf = os.read(self.fd, 65536)
            except OSError:
                break
            if not buf:
                break
            off = 0
            while off + 16 <= len(buf):
                wd, mask, cookie, ln = struct.unpack_from("iIII", buf, off)
                name = buf[off + 16:off + 16 + ln].split(b"\0", 1)[0].decode("utf-8", "replace")
                self.events.append((mask, name))
                off += 16 + ln
        os.close(self.fd)


def run_case(case, tier):
    out = hist.Outcome()
    disk = P.Disk(hist.scratch_dir("c04"))
    try:
        tdir = case["dir"]
        T = os.path.join(tdir, "tgt") if tdir else "tgt"
        os.makedirs(disk.abspath(tdir), exist_ok=True)
        b = case["behaviour"]
        # T.do sources the behaviour of the day; T depends on s0 so that the harness can dirty it between builds
        disk.write("s0", b"0\n")
        rel_s0 = os.path.relpath("s0", tdir or ".")
        disk.write(T + ".do", ('redo-ifchange "%s"\n. "$RV_CTL/behaviour.sh"\n' % rel_s0).encode())
        disk.write("parent.do", ('redo-ifchange "%s"\ncat "%s" 2>/dev/null || true\n' % (T, T)).encode())
        env = {} if case["log"] else {"REDO_LOG": "0"}

        def set_behaviour(text, data):
            with open(os.path.join(disk.ctl, "behaviour.sh"), "w") as f:
                f.write(text + "\n")
            with open(os.path.join(disk.ctl, "payload"), "wb") as f:
                f.write(data)
        prior_bytes = None
        if case["prior"] == "userfile":
            # a file of that name made by hand before redo ever built it: every behaviour must leave it alone
            r0 = runner.run_cmd(disk, ["redo-ifchange", "s0"], env_extra=env)
            prior_bytes = payload(case["seed"] + 2, 555)
            disk.write(T, prior_bytes)
        elif case["prior"] == "generated":
            prior_bytes = payload(case["seed"] + 1, 777)
            set_behaviour(script_for("stdout", 0), prior_bytes)
            r0 = runner.run_cmd(disk, ["redo-ifchange", "parent"], env_extra=env)
            if r0.rc != 0 or disk.read(T) != prior_bytes:
                raise runner.Inconclusive("prior build failed: %s" % r0.text()[-300:])
            disk.write("s0", b"1\n")
        else:
            # make the state directory exist without building the target
            r0 = runner.run_cmd(disk, ["redo-ifchange", "s0"], env_extra=env)
        data = payload(case["seed"], case["size"])
        # "killed by a signal at any point": before any output, half-way, after all of it
        half = [0, len(data) // 2, len(data)][(case["seed"] // 7) % 3]
        set_behaviour(script_for(b, case["exit"]), data)
        env2 = dict(env, RV_HALF=str(half))
        try:
            st0 = os.lstat(disk.abspath(T))
            stat_before = (st0.st_ino, st0.st_mtime_ns, st0.st_size)
        except FileNotFoundError:
            stat_before = None
        w = Watcher(disk.abspath(tdir), "tgt")
        w.start()
        argv = ["redo", T] if case["command"] == "redo" else ["redo-ifchange", "parent"]
        res = runner.run_cmd(disk, argv, env_extra=env2)
        w.finish()
        out.commands = 2
        if res.timed_out:
            raise runner.Inconclusive("timeout")
        text = res.text()
        ctx = {"case": {k: case[k] for k in case}, "cmd": {"argv": argv, "rc": res.rc, "err": text[-1500:]},
               "inotify": [(hex(m), n) for m, n in w.events if n.startswith("tgt")][:20], "reads": w.reads}
        if res.rc == 101 or "panicked at" in text:
            out.violation = {"property": "C09", "clause": "panic", "step": 0, "detail": ctx,
                             "sig": {"symptom": hist.panic_sig(text)}}
            return out
        got = disk.read(T)
        try:
            st1 = os.lstat(disk.abspath(T))
            stat_after = (st1.st_ino, st1.st_mtime_ns, st1.st_size)
        except FileNotFoundError:
            stat_after = None
        mdone = re.findall(r"@@REDO:done:\d+:[0-9.]+@@ (-?\d+) (\S+)", text)
        done_rv = [int(rv) for rv, name in mdone if name.endswith("tgt")]
        # a top-level redo-ifchange with log capture pretty-prints: "redo    tgt (exit 207)" / "redo    tgt (done)"
        for name, rv in re.findall(r"^redo +(\S+) \(exit (-?\d+)\)", text, re.M):
            if name.endswith("tgt"):
                done_rv.append(int(rv))
        for name in re.findall(r"^redo +(\S+) \(done\)", text, re.M):
            if name.endswith("tgt"):
                done_rv.append(0)
        size = len(data)
        # ---- expectation table (from the statement) ----
        direct = b.startswith("direct")
        if b == "stdout":
            exp = ("ok", data if size > 0 else None)
        elif b == "file":
            exp = ("ok", data)
        elif b in ("none", "file-then-rm"):
            exp = ("ok", None)
        elif b == "both":
            exp = ("fail", 207) if size > 0 else ("ok", data)
        elif direct:
            exp = ("fail", 206)
        elif b.endswith("-then-exit"):
            exp = ("fail", case["exit"])
        else:
            exp = ("fail", -SIGNUM[b.rsplit("-", 1)[1]])
        problems = []
        failure_mode = exp[0] == "fail"
        if case["prior"] == "userfile":
            # not redo's file: the script must not even matter (statement: "changes only when its .do exits 0" is
            # about targets redo produces; C11 for the rest) -- checked here: untouched, nothing left behind
            if got != prior_bytes or stat_after != stat_before:
                problems.append("hand-made file not left as it was: bytes %s -> %s, stat %s -> %s" % (
                    _d(prior_bytes), _d(got), stat_before, stat_after))
            final = prior_bytes
            failure_mode = False
            direct = False
        elif exp[0] == "ok":
            if res.rc != 0:
                problems.append("command failed (rc %d) although the script succeeded with one output" % res.rc)
            if got != exp[1]:
                problems.append("target is %s, expected %s" % (_d(got), _d(exp[1])))
            if done_rv and done_rv[-1] != 0:
                problems.append("done record carries %r" % done_rv)
            final = exp[1]
        else:
            if res.rc == 0:
                problems.append("command exited 0 although the script failed / output was ambiguous")
            if exp[1] not in done_rv:
                problems.append("done record for the target carries %r, expected %d" % (done_rv, exp[1]))
            if not direct:
                if got != prior_bytes or stat_after != stat_before:
                    problems.append("previous target not left as it was: bytes %s -> %s, stat %s -> %s" % (
                        _d(prior_bytes), _d(got), stat_before, stat_after))
            final = prior_bytes
        stray = disk.stray_files()
        if stray:
            problems.append("temporary files left behind: %s" % stray)
        others = [f for f in os.listdir(disk.abspath(tdir)) if f.startswith("tgt") and f not in ("tgt", "tgt.do")]
        if others:
            problems.append("unexpected files beside the target: %s" % others)
        # ---- atomicity ----
        if not direct:
            allowed = {hashlib.sha1(x).hexdigest() if x is not None else None for x in (prior_bytes, final)}
            torn = [k for k in w.seen if k not in allowed]
            if torn:
                problems.append("a reader saw %d content(s) that are neither the old nor the new target (lengths %s)"
                                % (len(torn), [w.seen[k] for k in torn]))
            evs = [m for m, n in w.events if n == "tgt"]
            bad = [hex(m) for m in evs if m & (IN_MODIFY | IN_CLOSE_WRITE)]
            if bad:
                problems.append("the target name was written in place (inotify %s)" % bad[:5])
            if prior_bytes is not None and final is not None and any(m & (IN_DELETE | IN_MOVED_FROM) for m in evs):
                # old file there before, a file there afterwards: the name must never be absent in between
                problems.append("the target name was removed before the new content was in place (inotify %s)"
                                % [hex(m) for m in evs][:6])
        if failure_mode or case["prior"] == "userfile" or (
                isinstance(exp[1], bytes) and size >= 4096 and case["prior"] == "generated"):
            out.nontrivial = True
        out.events["c04:prior-%s" % case["prior"]] += 1
        if "kill" in b:
            out.events["c04:killpos-%d" % ((case["seed"] // 7) % 3)] += 1
        out.events["c04:%s" % b] += 1
        out.events["c04:size-%s" % case["size"]] += 1
        out.events["c04:reader-samples"] += w.reads
        if problems:
            out.violation = {"property": "C04", "clause": "replacement", "step": 0,
                             "detail": dict(ctx, problems=problems),
                             "sig": {"symptom": "replacement", "behaviour": b, "first": problems[0][:60]}}
        return out
    finally:
        shutil.rmtree(disk.base, ignore_errors=True)


def _d(x):
    if x is None:
        return "absent"
    return "%d bytes sha1 %s" % (len(x), hashlib.sha1(x).hexdigest()[:10])


class Spec:
    id = "C04"
    level = "fault_enumeration"
    rule = ("Cross product of script behaviour (stdout, $3, none, both, writes $1, writes $1 and stdout, $3 then rm, "
            "stdout then exit N, $3 then exit N, half the payload on stdout / in $3 then kill -KILL/-TERM/-INT/-PIPE "
            "$$, the kill placed before any output / half-way / after all of it) x payload size (0, 1, 4095, 4096, 65537, 1-2 MiB of arbitrary bytes incl. NUL / non-UTF-8) x prior "
            "state (absent, previously generated with other content, made by hand) x command (redo T, redo-ifchange parent) = 504 "
            "combinations, each enumerated at least once in the thorough tier and sampled uniformly in quick; log "
            "capture on/off, exit code, target directory drawn at random. Oracles: the expectation table of the statement "
            "(single channel + exit 0 => exact payload; none => no file; failure/kill/both/direct => non-zero exit, "
            "done record with 206/207/N/-SIG, previous bytes+inode+mtime untouched); no *.redo.tmp or other new file "
            "beside the target; a reader thread re-reading the target throughout only ever sees the old or the new "
            "bytes (or ENOENT where one of them is absent); inotify shows no in-place write (IN_MODIFY/IN_CLOSE_WRITE) "
            "on the target name. Non-trivial = a failure mode, or a success >= 4096 bytes over a previously generated "
            "target. Distinct = (behaviour, size class, prior, command, log, seed).")
    assumptions = ["atomicity is observed by sampling reads (thousands per case) plus inotify; a torn state shorter than "
                   "both would have to be caught by inotify's in-place-write signal"]

    def cases(self, tier):
        return 336 if tier == "quick" else 3360  # random extras beyond the enumerated cross product

    def strategy(self, tier):
        return cases(tier)

    def run_case(self, case, tier):
        return run_case(case, tier)

    def extra_evidence(self):
        return {"cross_product_size": len(BEHAVIOURS) * len(SIZES) * len(PRIORS) * len(COMMANDS)}


SPEC = Spec()


def _enum_worker(args):
    i, seed = args
    n = len(BEHAVIOURS) * len(SIZES) * len(PRIORS) * len(COMMANDS)
    case = case_from_index(i, (i + seed) % 2, seed * 100003 + i, [1, 2, 3, 7, 99, 255][(i + seed) % 6],
                           ["", "sub", "sub/deep"][(i // 7 + seed) % 3])
    try:
        out = run_case(case, "enum")
    except runner.Inconclusive:
        return case, None, False, None
    finally:
        hist.cleanup_scratch()
    return case, out.violation, out.nontrivial, dict(out.events)


def run_check(tier, seed):
    """Full cross product first (exhaustive over the 504 combinations, `rounds` times with different payloads /
    log settings / exit codes / directories), then the Hypothesis-sampled extras."""
    import multiprocessing
    t0 = time.time()
    n = len(BEHAVIOURS) * len(SIZES) * len(PRIORS) * len(COMMANDS)
    rounds = 4 if tier == "quick" else 16
    known = engine.load_known()
    viol = []
    nontrivial = set()
    evals = 0
    with multiprocessing.get_context("fork").Pool(int(os.environ.get("RV_WORKERS", "16"))) as pool:
        jobs = [(i, seed * 1000 + r) for r in range(rounds) for i in range(n)]
        for case, v, nt, events in pool.imap_unordered(_enum_worker, jobs, chunksize=4):
            evals += 1
            if nt:
                nontrivial.add(engine.case_hash(case))
            if v is not None and v["property"] == "C04":
                if engine.match_known("C04", v.get("sig", {}), known) is None:
                    viol.append((case, v))
    code, ev = engine.run_property("rv.props.c04", tier, seed)
    cov = ev["coverage"]
    cov["enumerated_cross_product"] = {"combinations": n, "rounds": rounds, "evaluations": evals,
                                       "nontrivial": len(nontrivial)}
    cov["exhaustive"] = True
    cov["evaluations"] += evals
    cov["distinct_nontrivial"] += len(nontrivial)
    for case, v in viol[:5]:
        path = engine.write_replay("C04", case, v)
        print("VIOLATION property=C04 replay=%s" % path)
        print("  " + json_short(v))
        code = 1
    ev["violations"] += len(viol)
    ev["wall_s"] = round(time.time() - t0, 2)
    return code, ev


def json_short(v):
    import json
    return json.dumps({"clause": v.get("clause"), "sig": v.get("sig")})
