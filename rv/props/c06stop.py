"""C06, stop-point tier (fault enumeration): "the result of an execution is recorded before any other process may
decide whether to build that target".  The window between a script's exit and the recording commit is microseconds
wide, so it is opened by force: invocation P1 runs under the LD_PRELOAD shim and the process that issues the n-th
state-changing libc call (rename, unlink, database/WAL write, ...) SIGSTOPs itself immediately before it -- for EVERY
n of the run in turn.  While P1 is frozen there, a second invocation P2 (`redo-ifchange` of the same targets) is
started and runs until it finishes or blocks; then P1 continues.  Oracle: a target whose script had already exited
successfully when P2 was started must not be executed by P2 (its result is either recorded, or its lock is still
held so that P2 waits); no two executions of one target overlap; both invocations exit 0 and the contents are
from-scratch."""
import multiprocessing
import os
import shutil
import signal
import subprocess
import time

from .. import engine, hist, runner, sched, sut
from .. import model as M
from .. import project as P
from .c09 import BAD

SHIM = os.path.join(engine.VERIF, "shim", "verifshim.so")


def scenarios(tier, seed):
    out = []
    shapes = [("chain", {"a.do": [["dep", 1, ["s0"]], ["out", "stdout"]],
                         "b.do": [["dep", 1, ["a"]], ["out", "file"]],
                         "c.do": [["dep", 1, ["b"]], ["out", "stdout"]]}, ["c"]),
              ("fan", {"a.do": [["dep", 1, ["s0"]], ["out", "stdout"]],
                       "b.do": [["dep", 1, ["s0"]], ["out", "file"]],
                       "c.do": [["dep", 1, ["a", "b"]], ["out", "stdout"]]}, ["c"]),
              ("csum", {"a.do": [["dep", 1, ["s0"]], ["out", "stdout"], ["stamp"]],
                        "b.do": [["dep", 1, ["a"]], ["out", "stdout"]],
                        "c.do": [["dep", 1, ["b", "a"]], ["out", "file"]]}, ["c"]),
              ("two-roots", {"a.do": [["dep", 1, ["s0"]], ["out", "stdout"]],
                             "b.do": [["dep", 1, ["a"]], ["out", "stdout"]],
                             "c.do": [["dep", 1, ["a"]], ["out", "file"]]}, ["b", "c"])]
    for name, bodies, roots in shapes:
        for log in (0, 1):
            for state in ("fresh", "rebuild"):
                dof = {k: {"v": 1, "body": v} for k, v in bodies.items()}
                proj = {"dirs": [""], "sources": ["s0"], "dofiles": dof, "targets": ["a", "b", "c"], "watch": []}
                out.append({"name": "%s/log%d/%s" % (name, log, state), "project": proj, "roots": roots, "log": log,
                            "state": state})
    if tier == "quick":
        start = (seed * 3) % len(out)
        out = [out[(start + i * 5) % len(out)] for i in range(4)]
        uniq = []
        for s in out:
            if s["name"] not in [u["name"] for u in uniq]:
                uniq.append(s)
        out = uniq
    return out


def stopped_pids(sid):
    res = []
    for q in runner.session_pids(sid):
        st_, _, _, _ = sched.proc_state(q)
        if st_ in ("T", "t"):
            res.append(q)
    return res


def run_one(job):
    scn, n = job["scn"], job["n"]
    disk = P.Disk(hist.scratch_dir("c06s"))
    res = {"name": scn["name"], "n": n, "calls": 0, "stopped": False, "problem": None, "window": None}
    p1 = p2 = None
    try:
        disk.materialize(scn["project"])
        env0 = {} if scn["log"] else {"REDO_LOG": "0"}
        if scn["state"] == "rebuild":
            r0 = runner.run_cmd(disk, ["redo-ifchange"] + scn["roots"], env_extra=env0)
            if r0.rc != 0:
                res["problem"] = "inconclusive"
                return res
            disk.write("s0", P.source_content("s0", 1))
        disk.take_trace()
        ctr = os.path.join(disk.ctl, "ctr")
        with open(ctr, "wb") as f:
            f.write(b"\0" * 4096)
        env1 = runner.base_env(disk, env0)
        env1.update({"LD_PRELOAD": SHIM, "RV_SHIM_EXE": os.path.realpath(os.path.join(sut.BIN_DIR, "redo")),
                     "RV_SHIM_CTR": ctr, "RV_SHIM_LOG": os.path.join(disk.ctl, "shimlog"), "RV_SHIM_ROOT": disk.root,
                     "RV_SHIM_WRITES": "1", "RV_SHIM_STOP_AT": str(n)})
        o1 = open(os.path.join(disk.ctl, "out1"), "wb")
        p1 = subprocess.Popen(["redo-ifchange"] + scn["roots"], cwd=disk.root, env=env1, stdin=subprocess.DEVNULL,
                              stdout=o1, stderr=subprocess.STDOUT, start_new_session=True)
        o1.close()
        t0 = time.time()
        frozen = []
        while time.time() - t0 < 20:
            if p1.poll() is not None:
                break
            frozen = stopped_pids(p1.pid)
            if frozen:
                break
            time.sleep(0.002)
        done_before = set()
        ex2 = []
        if frozen:
            res["stopped"] = True
            lines1 = disk.take_trace()
            ex1a, _, _, exits1 = hist.parse_trace(lines1)
            done_before = set(t for t, rc in exits1.items() if rc == 0)
            # P2 while P1 is frozen
            o2 = open(os.path.join(disk.ctl, "out2"), "wb")
            p2 = subprocess.Popen(["redo-ifchange"] + scn["roots"], cwd=disk.root, env=runner.base_env(disk, env0),
                                  stdin=subprocess.DEVNULL, stdout=o2, stderr=subprocess.STDOUT,
                                  start_new_session=True)
            o2.close()
            t1 = time.time()
            while time.time() - t1 < 1.5 and p2.poll() is None:
                # finished, or blocked (lock / database busy wait): either way nothing more happens while P1 sleeps
                time.sleep(0.01)
            lines2 = disk.take_trace()
            ex2, _, _, _ = hist.parse_trace(lines2)
            for q in frozen:
                try:
                    os.kill(q, signal.SIGCONT)
                except OSError:
                    pass
        t2 = time.time()
        while time.time() - t2 < 30:
            if p1.poll() is not None and (p2 is None or p2.poll() is not None):
                break
            for q in stopped_pids(p1.pid):      # (a counter value reached twice cannot happen; defensive)
                os.kill(q, signal.SIGCONT)
            time.sleep(0.01)
        if p1.poll() is None or (p2 is not None and p2.poll() is None):
            res["problem"] = "inconclusive"
            return res
        rest = disk.take_trace()
        try:
            with open(os.path.join(disk.ctl, "shimlog")) as f:
                log = [l for l in f.read().split("\n") if l and not l.startswith("r")]
        except OSError:
            log = []
        res["calls"] = len(log)
        for l in log:
            f_ = l.split(" ", 3)
            if int(f_[0]) == n:
                res["window"] = "%s %s" % (f_[2], f_[3].split("/")[-1][:24])
        texts = []
        for nm in ("out1", "out2"):
            try:
                with open(os.path.join(disk.ctl, nm), "rb") as f:
                    texts.append(f.read().decode("utf-8", "replace"))
            except OSError:
                texts.append("")
        ctx = {"scenario": scn["name"], "n": n, "call": res["window"], "rc1": p1.returncode,
               "rc2": p2.returncode if p2 else None, "finished_before_P2": sorted(done_before), "P2_executed": ex2,
               "executed_after_P1_continued": hist.parse_trace(rest)[0],
               "text1": texts[0][-1200:], "text2": texts[1][-1200:]}
        # executed again -- by P2 while P1 was frozen, or by anybody after P1 continued (P2 may have been blocked on
        # the database until then): nothing changed meanwhile, so a second start of a finished target is wrong
        ex_rest, _, _, _ = hist.parse_trace(rest)
        again = sorted(t for t in done_before if t in ex2 or t in ex_rest)
        if again:
            res["problem"] = {"clause": "decided-before-recorded", "detail": ctx,
                              "sig": {"symptom": "rebuilt-although-finished", "tier": "stop-point"}}
            return res
        for txt, rc in ((texts[0], p1.returncode), (texts[1], p2.returncode if p2 else 0)):
            mb = BAD.search(txt)
            if rc == 101 or (mb and ("panicked" in mb.group(0) or "assertion" in mb.group(0))):
                res["problem"] = {"clause": "panic", "detail": ctx, "prop": "C09",
                                  "sig": {"symptom": hist.panic_sig(txt), "tier": "stop-point"}}
                return res
            if rc != 0:
                res["problem"] = {"clause": "spurious-failure", "detail": ctx,
                                  "sig": {"symptom": "exit %s" % rc, "tier": "stop-point"}}
                return res
        m = M.Model(scn["project"])
        if scn["state"] == "rebuild":
            m.user_write("s0", P.source_content("s0", 1))
        memo = {}
        bad = [t for t in m.targets if disk.read(t) != m.from_scratch(t, memo)]
        if bad:
            res["problem"] = {"clause": "wrong-content", "detail": dict(ctx, bad=bad),
                              "sig": {"symptom": "content", "tier": "stop-point"}}
        return res
    finally:
        for p_ in (p1, p2):
            if p_ is not None:
                runner.kill_session(p_.pid)
        shutil.rmtree(disk.base, ignore_errors=True)
        hist.cleanup_scratch()


def run_case(case, tier):
    out = hist.Outcome()
    res = run_one(case)
    if res["problem"] == "inconclusive":
        raise runner.Inconclusive("stop-point run inconclusive")
    if res["problem"]:
        p = res["problem"]
        out.violation = {"property": p.get("prop", "C06"), "clause": "stop-point/" + p["clause"], "step": 0,
                         "detail": p["detail"], "sig": p["sig"]}
    out.nontrivial = res["stopped"]
    return out


def explore(tier, seed, workers=16):
    scns = scenarios(tier, seed)
    ctx = multiprocessing.get_context("fork")
    stats = {"scenarios": {}, "runs": 0, "stopped": 0, "inconclusive": 0, "calls_in_counting_runs": 0}
    problems, samples = [], []
    with ctx.Pool(workers) as pool:
        counted = pool.map(run_one, [{"scn": s, "n": 0} for s in scns])
        jobs = []
        for s, c in zip(scns, counted):
            if c["problem"]:
                if c["problem"] != "inconclusive":
                    problems.append(c)
                else:
                    stats["inconclusive"] += 1
                continue
            stats["calls_in_counting_runs"] += c["calls"]
            step = 1 if tier != "quick" else 3
            pts = list(range(1 + (seed % step), c["calls"] + 1, step))
            stats["scenarios"][s["name"]] = {"calls": c["calls"], "points": len(pts), "stopped": 0}
            jobs += [{"scn": s, "n": n} for n in pts]
        for res in pool.imap_unordered(run_one, jobs, chunksize=2):
            stats["runs"] += 1
            if res["problem"] == "inconclusive":
                stats["inconclusive"] += 1
                continue
            if res["stopped"]:
                stats["stopped"] += 1
                stats["scenarios"][res["name"]]["stopped"] += 1
                if len(samples) < 4 and stats["runs"] % 29 == 3:
                    samples.append({"scenario": res["name"], "n": res["n"], "frozen_before": res["window"]})
            if res["problem"]:
                problems.append(res)
    return problems, stats, samples
