"""C14 - redo-ifcreate and redo-always dependencies (engine H at -j1; the -j>1 once-per-run clause is in the gated tier)."""
from .. import gen, hist


class Runner(hist.HistoryRunner):
    execset_prop = "C14"
    own_prop = "C14"
    claims = ('mkpath', 'rmpath', 'mkpath-dir')
    once_prop = "C14"

    def check_cmd(self, kind, targets, cwd, res, ok, ex, calls, args, exits, pre, nested, ctx):
        m = self.m
        ev = self.out.events
        for c in ("mkpath", "rmpath", "mkpath-dir"):
            if c in self.pending_changes:
                self.out.nontrivial = True
                ev["c14:command-after-" + c] += 1
        alw = [t for t in set(m.executed) if m.rec[t].always]
        for t in alw:
            n = sum(1 for d in m.targets if d != t and t in m.closure(d) and d in m.executed)
            if n >= 2:
                self.out.nontrivial = True
                ev["c14:always-target-with>=2-dependents-in-run"] += 1
            ev["c14:always-target-executed"] += 1
        if any(k == "ifcreate" and not okk for (_, k, okk) in m.calls):
            ev["c14:ifcreate-on-existing-path-is-error"] += 1
            self.out.nontrivial = True
        hist.HistoryRunner.check_cmd(self, kind, targets, cwd, res, ok, ex, calls, args, exits, pre, nested, ctx)


class Spec:
    id = "C14"
    level = "exploration"
    rule = ("Projects where ~45% of rules use the canonical ifcreate pattern on one of two watched paths (also inside "
            "sub-directories), ~10% call redo-ifcreate unconditionally and ~35% are redo-always targets at any depth "
            "with plain and checksummed dependents; histories create and delete the watched paths between commands. "
            "Oracle per command: multiset of executed scripts equals the model's (built after F appears, not before; "
            "always-target exactly once per run that needs it), status of every nested redo-ifcreate/redo-always call "
            "equals the model's (ifcreate on an existing path fails the script), no target twice in one run. "
            "Non-trivial = a command that follows creation/deletion of a watched path, or an always-target with >= 2 "
            "dependents executed in one run, or an ifcreate error; distinct = SHA-1 of the case JSON.")
    assumptions = ["-j1 here; parallel clause in the gated tier",
                   "watched paths are created (as plain files or, 30%, as directories) and removed between commands"]
    checks = {"execset", "calls", "once", "content"}

    def accepts(self, case):
        return "ops" in case

    def cases(self, tier):
        return 1600 if tier == "quick" else 16000

    def strategy(self, tier):
        o = {"p_failflag": 5, "p_csum": 25, "p_always": 35, "p_ifc": 45, "p_ifcreate_raw": 10, "max_cmd_targets": 2,
             "p_mkdir": 30, "p_dangling": 20,
             "weights": {"cmd": 45, "redo": 5, "mkpath": 16, "rmpath": 12, "edit": 8, "ext": 5, "failflag": 1,
                         "setdo": 3, "adddo": 1, "rmdo": 1, "rmtarget": 3, "touch": 1, "crash": 5}}
        if tier == "thorough":
            o.update(max_targets=12, max_ops=28)
        return gen.histories(o)

    def run_case(self, case, tier):
        return Runner(case, self.checks, tag="c14").run()


SPEC = Spec()


def spec_for(case):
    from . import c14s
    return c14s.SPEC if "invs" in case else SPEC


def run_check(tier, seed):
    from .. import engine
    code_h, ev_h = engine.run_property("rv.props.c14", tier, seed)
    code_s, ev_s = engine.run_property("rv.props.c14s", tier, seed)
    ev = engine.merge_evidence(ev_h, ev_s, "serial histories", "parallel scheduled scenarios")
    return (1 if 1 in (code_h, code_s) else max(code_h, code_s)), ev
