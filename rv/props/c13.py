"""C13 - .do rule selection order and script arguments (in-process proptest + end-to-end histories)."""
import json
import os
import posixpath
import time

from hypothesis import strategies as st

from .. import engine, gen, hist, inproc, runner
from .. import project as P

DIRNAMES = ["a", "b c", "dä", "x.y", "e"]
PIECES = ["n", "m o", "ü", "lib", "gen", "c", "tar", "gz"]


@st.composite
def cases(draw, tier):
    depth = draw(st.integers(1, 4))
    chain = []
    cur = ""
    for i in range(depth):
        cur = posixpath.join(cur, DIRNAMES[draw(st.integers(0, len(DIRNAMES) - 1))] + str(i))
        chain.append(cur)
    dirs = [""] + chain
    if depth >= 2 and draw(st.integers(0, 99)) < 50:
        # a second branch whose directories have the SAME names at the same depths (src/lib/.. vs test/lib/..):
        # commands and redo-whichdo issued from there reach the target by crossing from one branch into the other
        cur = "zs"
        dirs.append(cur)
        for comp in chain[-1].split("/")[1:]:
            cur = posixpath.join(cur, comp)
            dirs.append(cur)
    ndots = draw(st.integers(0, 3))
    name = ".".join(PIECES[draw(st.integers(0, len(PIECES) - 1))] for _ in range(ndots + 1))
    tdir = chain[-1]
    t = posixpath.join(tdir, name)
    # a sibling with the same extension chain: it shares every default*.do candidate with t (but not t's own .do)
    name2 = "zz" + (name[name.index("."):] if "." in name else "")
    t2 = posixpath.join(tdir, name2)
    cands = [c[0] for c in P.do_candidates(t)]
    npos = draw(st.integers(1, 4))
    pos = sorted(set(draw(st.integers(0, len(cands) - 1)) for _ in range(npos)))
    src = posixpath.join(dirs[draw(st.integers(0, len(dirs) - 1))], "src")
    dofiles = {}
    for i in pos:
        dofiles[cands[i]] = {"v": 1, "body": [["dep", 1, [src]], ["out", draw(st.sampled_from(["stdout", "file"]))]]}
    ops = []
    present = set(pos)
    n = draw(st.integers(3, 9))
    if draw(st.integers(0, 99)) < 60:
        # both siblings are built first, so that later candidate changes meet two recorded targets
        ops.append(["build", "ifchange", "", 0, draw(st.sampled_from([2, 3]))])
    for _ in range(n):
        k = draw(st.integers(0, 99))
        cwd = dirs[draw(st.integers(0, len(dirs) - 1))]
        style = draw(st.integers(0, 4))
        if k < 40:
            # which: 0 = t alone (generated spelling), 1 = the sibling alone, 2 = both, 3 = both, sibling first
            ops.append(["build", draw(st.sampled_from(["ifchange", "redo"])), cwd, style,
                        draw(st.sampled_from([0, 0, 1, 2, 3]))])
        elif k < 60:
            ops.append(["whichdo", cwd, style])
        elif k < 80:
            first = min(present) if present else len(cands)
            if first > 0:
                i = draw(st.integers(0, first - 1))
                if i == 0 and first > 1 and draw(st.integers(0, 99)) < 70:
                    i = draw(st.integers(1, first - 1))     # prefer a default*.do that both siblings share
                present.add(i)
                ops.append(["adddo", cands[i], {"v": 1, "body": [["dep", 1, [src]], ["out", "stdout"]]}])
        elif k < 92:
            if len(present) >= 2:
                i = min(present)
                present.discard(i)
                ops.append(["rmdo", cands[i]])
        else:
            ops.append(["edit", src])
    proj = {"dirs": dirs, "sources": [src], "dofiles": dofiles, "targets": [t, t2], "watch": []}
    return {"project": proj, "cfg": {"log": draw(st.integers(0, 1)), "keep_going": 0}, "ops": ops}


def spell(t, cwd, style, dirs):
    rel = posixpath.relpath(t, cwd or ".")
    if style == 1:
        return "./" + rel
    if style == 2:
        return rel.replace("/", "//", 1) if "/" in rel else "./" + rel
    if style == 3:
        # through an existing directory and back: <first component>/../<rel> (lexical and kernel agree: no symlinks)
        d = posixpath.dirname(t)
        top = d.split("/")[0]
        back = posixpath.relpath(".", cwd or ".")
        return posixpath.join(back, top, "..", t)
    if style == 4:
        return None  # absolute, filled in by the runner
    return rel


class Runner(hist.HistoryRunner):
    execset_prop = "C13"
    own_prop = "C13"
    claims = ('adddo', 'rmdo')

    def apply(self, op):
        k = op[0]
        m, disk = self.m, self.disk
        t = m.targets[0]
        dirs = self.case["project"]["dirs"]
        if k == "build":
            kind, cwd, style = op[1], op[2], op[3]
            which = op[4] if len(op) > 4 else 0
            if not os.path.isdir(os.path.join(disk.root, ".redo")):
                cwd = ""
            if which and len(m.targets) > 1:
                t2 = m.targets[1]
                ts = {1: [t2], 2: [t, t2], 3: [t2, t]}[which]
                if which >= 2:
                    self.out.events["c13:both-siblings-in-one-command"] += 1
                self.do_cmd(kind, ts, cwd)
                return
            sp = spell(t, cwd, style, dirs) or os.path.join(disk.root, t)
            if cwd.startswith("zs"):
                self.out.events["c13:requested-from-a-sibling-branch-with-equal-directory-names"] += 1
            self.spelling = sp
            self.do_cmd_spelled(kind, t, sp, cwd)
        elif k == "whichdo":
            cwd, style = op[1], op[2]
            sp = spell(t, cwd, style, dirs) or os.path.join(disk.root, t)
            if cwd.startswith("zs"):
                self.out.events["c13:whichdo-from-a-sibling-branch-with-equal-directory-names"] += 1
            q = runner.run_cmd(disk, ["redo-whichdo", sp], cwd=cwd, env_extra=self.env)
            self.out.commands += 1
            lines = [l for l in q.out.decode("utf-8", "replace").split("\n") if l]
            got = [posixpath.normpath(posixpath.join(cwd, l)) for l in lines]
            cands = [c[0] for c in P.do_candidates(t)]
            rule = m.rule_for(t)
            ctx = {"cmd": q.brief(), "got": got, "cwd": cwd, "spelling": sp}
            self.out.events["c13:whichdo"] += 1
            if rule is not None:
                want = cands[:cands.index(rule[0]) + 1]
                if got != want or q.rc != 0:
                    self.violate("C13", "whichdo-list", dict(ctx, want=want), {"symptom": "whichdo"})
                if len(want) >= 2:
                    self.out.nontrivial = True
            else:
                # nothing inside the project: the listing continues above the project root and ends in failure
                inside = [g for g in got if not g.startswith("..")]
                if inside != cands or q.rc == 0:
                    self.violate("C13", "whichdo-list", dict(ctx, want=cands), {"symptom": "whichdo-none"})
        elif k == "adddo":
            hist.HistoryRunner.apply(self, ["setdo", op[1], op[2]])
            self.out.events["c13:higher-priority-script-added"] += 1
        elif k == "rmdo":
            hist.HistoryRunner.apply(self, ["rmdo", op[1]])
            self.out.events["c13:chosen-script-removed"] += 1
        else:
            hist.HistoryRunner.apply(self, op)

    def do_cmd_spelled(self, kind, t, sp, cwd):
        # same as do_cmd but with our own spelling of the single target
        self._spell_override = sp
        try:
            self.do_cmd(kind, [t], cwd)
        finally:
            self._spell_override = None

    def check_cmd(self, kind, targets, cwd, res, ok, ex, calls, args, exits, pre, nested, ctx):
        for t in targets:
            self.check_target(t, ok, ex, args, ctx)
        hist.HistoryRunner.check_cmd(self, kind, targets, cwd, res, ok, ex, calls, args, exits, pre, nested, ctx)

    def check_target(self, t, ok, ex, args, ctx):
        m = self.m
        ev = self.out.events
        if ok and t not in ex:
            # not executed by this successful command: what is there must still come from the script that is the
            # first existing candidate NOW (a candidate added or removed since must have caused a rebuild)
            rule = m.rule_for(t)
            f = m.fs.get(t)
            got = self.disk.read(t)
            if rule is not None and got is not None and (f is None or f.owner == "redo") \
                    and (" %s v" % rule[0]).encode() not in got.split(b"\n")[0]:
                self.violate("C13", "wrong-script", dict(ctx, target=t, content=hist._short(got), want_dofile=rule[0]),
                             {"symptom": "wrong-script", "executed": False})
        if t in ex:
            rule = m.rule_for(t)
            a = args.get(t)
            dof, dodir, a1, a2, _ = rule
            ev["c13:script-ran"] += 1
            if posixpath.dirname(dof) != posixpath.dirname(t):
                ev["c13:rule-above-target-dir"] += 1
                self.out.nontrivial = True
            if t.count(".") - posixpath.dirname(t).count(".") >= 2:
                self.out.nontrivial = True
            if a is None:
                self.violate("C13", "no-args-record", ctx, {"symptom": "no-A-record"})
            g1, g2, g3, pwd = a
            want_pwd = os.path.realpath(self.disk.abspath(dodir))
            tdir_abs = os.path.realpath(self.disk.abspath(posixpath.dirname(t)))
            g3_abs = os.path.normpath(os.path.join(pwd, g3))
            problems = []
            if os.path.realpath(pwd) != want_pwd:
                problems.append("cwd %r != script dir %r" % (pwd, want_pwd))
            if g1 != a1:
                problems.append("$1 %r != %r" % (g1, a1))
            if g2 != a2:
                problems.append("$2 %r != %r" % (g2, a2))
            if os.path.dirname(g3_abs) != tdir_abs:
                problems.append("$3 %r is not beside the target (%r)" % (g3, tdir_abs))
            if os.path.basename(g3_abs) == posixpath.basename(t):
                problems.append("$3 is the target itself")
            if os.path.lexists(g3_abs):
                problems.append("$3 still exists after the build")
            if problems:
                self.violate("C13", "script-arguments", dict(ctx, problems=problems, args=list(a)),
                             {"symptom": "args"})
            got = self.disk.read(t)
            if ok and (got is None or (" %s v" % dof).encode() not in got.split(b"\n")[0]):
                self.violate("C13", "wrong-script", dict(ctx, content=hist._short(got), want_dofile=dof),
                             {"symptom": "wrong-script"})


# let do_cmd use the overridden spelling
_orig_spell = hist.spell


class Spec:
    id = "C13"
    level = "exploration"
    rule = ("End-to-end half: directory chain of depth 1-4 (names with spaces, unicode, dots), a target in the deepest "
            "directory with 0-3 dots, scripts placed at 1-4 positions of the reference candidate list, requested "
            "through generated spellings (./, //, dir/../, absolute) from generated working directories; history "
            "operations add a higher-priority script / remove the chosen one / edit the source. Oracles: redo-whichdo "
            "prints exactly the reference candidates up to the first existing one; the script that ran is that one "
            "(marker in content), ran in its own directory with $1/$2 as the statement says and $3 a non-existing "
            "path beside the target; execution multiset equals the model's (=> rebuilt with the new choice after "
            "add/remove). Non-trivial = the chosen rule lives above the target's directory or the name has >= 2 dots "
            "or whichdo lists >= 2 candidates. In-process half: proptest over absolute paths (depth 0-5, 0-4 dots, "
            "leading dots, spaces, unicode, redundant separators): possible_do_files == reference enumeration for "
            "regular names, structural invariants for names with empty extension components.")
    assumptions = ["no .do files exist above the project root", "-j1"]
    checks = {"execset", "content"}

    def cases(self, tier):
        return 1600 if tier == "quick" else 12000

    def strategy(self, tier):
        return cases(tier)

    def run_case(self, case, tier):
        return Runner(case, self.checks, tag="c13").run()


SPEC = Spec()


def run_check(tier, seed):
    t0 = time.time()
    ok, msg = inproc.build()
    inp = None
    if ok:
        inp = inproc.run("c13", 20000 if tier == "quick" else 2000000, seed)
    code, ev = engine.run_property("rv.props.c13", tier, seed)
    cov = ev["coverage"]
    if inp is not None:
        cov["inproc"] = {k: inp[k] for k in ("evaluations", "nontrivial", "classes", "samples")}
        cov["evaluations"] += inp["evaluations"]
        cov["distinct_nontrivial"] += inp["nontrivial"]
        for f in inp["failures"]:
            path = engine.write_replay("C13", {"inproc": "c13", "mode": "c13", "n": 20000 if tier == "quick" else 2000000,
                                               "seed": seed, "failure": f}, f, prefix="fail-inproc")
            print("VIOLATION property=C13 replay=%s" % path)
            print("  " + f["detail"][:600])
            code = 1
            ev["violations"] += 1
    else:
        cov["inproc"] = {"disabled": "in-process crate does not build against /repo: " + msg[-400:]}
    from .. import fuzz
    fv = []
    fcode = fuzz.campaign("C13", {"dofiles": (100000, 3000000, 200)}, tier, seed, cov, fv)
    ev["violations"] += len(fv)
    code = max(code, fcode) if code != 1 else 1
    ev["wall_s"] = round(time.time() - t0, 2)
    return code, ev
