"""C01 - no stale target after a successful redo-ifchange / redo (engine H + from-scratch oracle)."""
from .. import gen, hist


class Spec:
    id = "C01"
    level = "exploration"
    rule = ("Hypothesis-generated project (3-8 targets: specific, default.*, checksummed with lossy projections, always, "
            "ifcreate) + history of 5-14 operations (commands from several cwds, source edits/touches, target removals, "
            ".do edits/additions/removals, watched-path creation/removal, fail-flag toggles); after every command that "
            "exits 0 every path in the requested targets' current dependency closure must hold the bytes of an "
            "independent from-scratch evaluation, and redo-ood must not list any of them. Non-trivial = the history "
            "contains a successful command after at least one change; distinct = SHA-1 of the case JSON.")
    assumptions = ["sources are edited only between commands and every edit changes mtime",
                   "scripts are deterministic functions of the files they declare",
                   "-j1, one invocation at a time"]
    checks = {"content", "ood-after"}

    def cases(self, tier):
        return 2400 if tier == "quick" else 24000

    def strategy(self, tier):
        from hypothesis import strategies as st
        o = {"p_csum": 35, "p_gendir": 35, "weights": {"crash": 6, "rmgendir": 4, "mkgendir": 2}}
        # a second family dense in checksummed targets and source edits with longer histories: staleness that
        # needs "out-of-band rebuild of the consumer, then another edit" lives here
        d = {"p_failflag": 5, "p_csum": 60, "p_always": 5, "p_ifc": 5, "min_ops": 8, "max_ops": 16,
             "max_cmd_targets": 1, "p_stampif": 35, "p_focus": 40,
             "weights": {"cmd": 45, "edit": 34, "stampflag": 8, "crash": 5, "failflag": 1, "setdo": 3, "adddo": 1, "rmdo": 1, "rmtarget": 6,
                         "redo": 4, "mkpath": 1, "rmpath": 1, "ext": 1, "touch": 3}}
        if tier == "thorough":
            o.update(max_targets=14, max_ops=30)
            d.update(max_targets=12, max_ops=30)
        # third family: tiny projects and a small operation alphabet (see C03)
        t = {"min_targets": 2, "max_targets": 3, "max_sources": 2, "max_dirs": 0, "p_csum": 75, "p_stampif": 80,
             "p_always": 0, "p_ifc": 0, "p_failflag": 0, "p_default": 0, "min_ops": 12, "max_ops": 22,
             "max_cmd_targets": 1, "p_focus": 70, "edit_variants": 2,
             "weights": {"cmd": 50, "edit": 30, "stampflag": 15, "touch": 0, "rmtarget": 3, "setdo": 0, "adddo": 0,
                         "rmdo": 0, "mkpath": 0, "rmpath": 0, "ext": 0, "failflag": 0, "redo": 2}}
        if tier == "thorough":
            t.update(max_ops=30)
        return st.one_of(gen.histories(o), gen.histories(d), gen.histories(t))

    def run_case(self, case, tier):
        return hist.HistoryRunner(case, self.checks, tag="c01").run()


SPEC = Spec()
