"""C01 - no stale target after a successful redo-ifchange / redo (engine H + from-scratch oracle)."""
from .. import gen, hist


class Spec:
    id = "C01"
    level = "exploration"
    rule = ("Hypothesis-generated project (3-8 targets: specific, default.*, checksummed with lossy projections, always, "
            "ifcreate) + history of 5-14 operations (commands from several cwds, source edits/touches, target removals, "
            ".do edits/additions/removals, watched-path creation/removal, fail-flag toggles); after every command that "
            "exits 0 every path in the requested targets' current dependency closure must hold the bytes of an "
            "independent from-scratch evaluation, and redo-ood must not list any of them. Non-trivial = the history "
            "contains a successful command after at least one change; distinct = SHA-1 of the case JSON.")
    assumptions = ["sources are edited only between commands and every edit changes mtime",
                   "scripts are deterministic functions of the files they declare",
                   "-j1, one invocation at a time"]
    checks = {"content", "ood-after"}

    def cases(self, tier):
        return 1600 if tier == "quick" else 16000

    def strategy(self, tier):
        o = {"p_csum": 35}
        if tier == "thorough":
            o.update(max_targets=14, max_ops=30)
        return gen.histories(o)

    def run_case(self, case, tier):
        return hist.HistoryRunner(case, self.checks, tag="c01").run()


SPEC = Spec()
