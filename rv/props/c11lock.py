"""C11, database-contention tier: a file put in the target's place by hand while redo WAITS FOR THE DATABASE at the end
of that target's build.  The harness plays a concurrent writer: it takes SQLite's write lock (BEGIN IMMEDIATE) while
the script sits at a gate, lets the script finish, and -- while redo is kept out of the database and therefore cannot
yet be recording the result -- replaces (or creates) the target by hand; then it gives the lock back.  Whatever redo
does next, the hand-made file must survive untouched."""
import os
import sqlite3
import time

from hypothesis import strategies as st

from .. import hist, runner, sched
from .c09 import BAD


@st.composite
def cases(draw, tier):
    tdir = draw(st.sampled_from(["", "", "d1"]))
    byrule = draw(st.sampled_from(["specific", "default", "default-parent"]))
    name = "t.x"
    t = os.path.join(tdir, name) if tdir else name
    if byrule == "specific":
        dofn = t + ".do"
    elif byrule == "default" or not tdir:
        dofn = os.path.join(tdir, "default.x.do") if tdir else "default.x.do"
    else:
        dofn = "default.x.do"
    out_mode = draw(st.sampled_from(["stdout", "file", "none"]))
    body = [["dep", 1, ["s0"]], ["work", 1]]
    if out_mode != "none":
        body.append(["out", out_mode])
    # (no redo-stamp here: it needs the database itself and would wait for the harness instead of finishing)
    dof = {dofn: {"v": 1, "body": body},
           "p.do": {"v": 1, "body": [["dep", 1, [t]], ["out", "stdout"]]}}
    proj = {"dirs": ["", "d1"], "sources": ["s0"], "dofiles": dof, "targets": [t, "p"], "watch": []}
    cmd = draw(st.sampled_from([["redo", t], ["redo-ifchange", t], ["redo-ifchange", "p"], ["redo", "-j2", t]]))
    return {"project": proj, "dblock": True, "t": t, "prior": draw(st.sampled_from(["absent", "generated"])),
            "invs": [{"argv": cmd, "cwd": "", "env": {} if draw(st.integers(0, 1)) else {"REDO_LOG": "0"},
                      "jobserver": None}],
            "how": draw(st.sampled_from(["rename", "unlink-create"])), "wait_ms": draw(st.sampled_from([60, 150, 400])),
            "schedule": [], "sopts": {}}


def run_case(case, tier):
    out = hist.Outcome()
    t = case["t"]
    r = sched.SchedRunner(case, tag="c11l")
    con = None
    try:
        disk = r.disk
        pre = runner.run_cmd(disk, ["redo-ifchange", "s0"], env_extra={"REDO_LOG": "0"})    # the state directory exists
        if case["prior"] == "generated":
            # (no gate without the event FIFO variable: the script runs through)
            pr = runner.run_cmd(disk, ["redo-ifchange", "p"], env_extra={"REDO_LOG": "0"})
            if pr.rc != 0 or not os.path.exists(disk.abspath(t)) and any(
                    s[0] == "out" for s in list(case["project"]["dofiles"].values())[0]["body"]):
                raise runner.Inconclusive("prebuild failed: %s" % pr.text()[-300:])
            disk.write("s0", hist.P.source_content("s0", 1))
        disk.take_trace()
        inv = r.invs[0]
        r.start_inv(inv)
        gate = None
        t_end = time.time() + 30
        while time.time() < t_end and gate is None and inv.alive():
            r.quiescent(timeout=0.5)
            r.reap()
            gs = r.pending_gates()
            if gs:
                gate = gs[0]
        if gate is None:
            raise runner.Inconclusive("script never reached its gate: %s" % r.inv_text(inv)[-300:])
        # play the concurrent writer
        con = sqlite3.connect(os.path.join(disk.root, ".redo", "db.sqlite3"), timeout=20, isolation_level=None)
        con.execute("BEGIN IMMEDIATE")
        r.release_gate(gate)
        if not r.wait_script_gone(gate.pid, timeout=10):
            raise runner.Inconclusive("script did not finish")
        time.sleep(case["wait_ms"] / 1000.0)      # redo has reaped its job and is waiting for the database
        r.reap()
        if not inv.alive():
            # redo finished without needing the database again?  then there was no wait to exploit
            raise runner.Inconclusive("redo did not wait for the database")
        path = disk.abspath(t)
        data = ("made by hand %s\n" % t).encode()
        if case["how"] == "rename":
            with open(path + ".hand", "wb") as f:
                f.write(data)
            os.rename(path + ".hand", path)
        else:
            try:
                os.unlink(path)
            except FileNotFoundError:
                pass
            with open(path, "wb") as f:
                f.write(data)
        st0 = os.lstat(path)
        before = (st0.st_ino, st0.st_mtime_ns, st0.st_size)
        time.sleep(0.02)
        con.execute("ROLLBACK")
        con.close()
        con = None
        t_end = time.time() + 40
        while time.time() < t_end and inv.alive():
            for g in r.pending_gates():
                r.release_gate(g)
            r.quiescent(timeout=0.3)
            r.reap()
        if inv.alive():
            raise runner.Inconclusive("redo did not finish")
        text = r.inv_text(inv)
        out.commands = 1
        out.nontrivial = True
        out.events["c11l:hand-made-file-put-in-place-while-redo-waits-for-the-database"] += 1
        out.events["c11l:prior-%s" % case["prior"]] += 1
        out.events["c11l:redo-exit-%s" % ("0" if inv.rc == 0 else "nonzero")] += 1
        mb = BAD.search(text)
        if inv.rc == 101 or (mb and "panicked" in mb.group(0)):
            out.violation = {"property": "C09", "clause": "panic", "step": 0,
                             "detail": {"argv": inv.spec["argv"], "text": text[-1500:]},
                             "sig": {"symptom": hist.panic_sig(text)}}
            return out
        try:
            st1 = os.lstat(path)
            after = (st1.st_ino, st1.st_mtime_ns, st1.st_size)
            with open(path, "rb") as f:
                got = f.read()
        except FileNotFoundError:
            after, got = None, None
        if after != before or got != data:
            out.violation = {"property": "C11", "clause": "dblock/user-file-changed", "step": 0,
                             "detail": {"argv": inv.spec["argv"], "rc": inv.rc, "before": before, "after": after,
                                        "got": hist._short(got), "text": text[-1200:]},
                             "sig": {"symptom": "user-file-" + ("removed" if got is None else "replaced"),
                                     "tier": "dblock"}}
        return out
    finally:
        if con is not None:
            try:
                con.close()
            except Exception:
                pass
        r.close()


class Spec:
    id = "C11"
    level = "exploration"
    rule = ("Database-contention tier: a target (specific rule, default rule, default rule in the parent directory; "
            "stdout / $3 / no output; absent or previously generated) whose script sits at a gate; the harness takes "
            "SQLite's write lock as a concurrent command would, lets the script finish, waits until redo is kept "
            "waiting for the database, puts a hand-made file at the target's name (rename of a new inode, or unlink + "
            "create), returns the lock. Oracle: the hand-made file still exists afterwards with the same bytes, inode "
            "and mtime, whatever the command's exit status. Non-trivial = the file was put in place while redo was "
            "still running and waiting.")
    assumptions = ["the replacement happens while the harness itself holds the write lock, i.e. certainly before redo can "
                   "be inside the transaction that records the build"]

    def accepts(self, case):
        return "dblock" in case

    def cases(self, tier):
        return 160 if tier == "quick" else 1600

    def strategy(self, tier):
        return cases(tier)

    def run_case(self, case, tier):
        return run_case(case, tier)


SPEC = Spec()
