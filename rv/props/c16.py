"""C16 - concurrent commands on one project do not fail spuriously or lose state (engine S, free-running)."""
import os
import re
import sqlite3
import subprocess
import time

from hypothesis import strategies as st

from .. import hist, runner, sched, sgen

DBERR = re.compile(r"database is locked|SQLITE_BUSY|database table is locked|no such table|disk I/O error|"
                   r"database disk image is malformed|failed to insert new Runid|could not connect")


@st.composite
def cases(draw, tier):
    proj = draw(sgen.graphs({"p_gate": 0, "p_always": 0, "p_csum": 15, "max_leaf": 5, "max_mid": 4}))
    L = proj["layers"]
    allt = L["tops"] + L["mids"] + L["leaves"]
    # plain files that exist but that redo has never been told about, and that no rule matches: naming one on a
    # command line makes redo look it up (and add it) -- a write in what looks like a read-only pre-check
    unknown = ["u%d" % i for i in range(draw(st.integers(0, 3)))]
    proj = dict(proj, sources=list(proj["sources"]) + unknown)
    fresh = draw(st.integers(0, 99)) < 25      # the racing commands are the very first ones on the project
    n = draw(st.integers(2, 10 if tier == "quick" else 12))
    cmds = []
    for i in range(n):
        k = draw(st.integers(0, 99))
        if k < 45:
            kind = draw(st.sampled_from(["redo", "redo-ifchange"]))
            ts = sgen._subset(draw, allt, 1, 3)
            if draw(st.integers(0, 99)) < 35:
                # also name existing non-generated files (the shared source, never-seen plain files): redo must
                # leave them alone and succeed
                extra = sgen._subset(draw, ["s0"] + unknown, 1, 2)
                for x in extra:
                    ts.insert(draw(st.integers(0, len(ts))), x)
            argv = [kind] + (["-j%d" % draw(st.integers(1, 4))] if kind == "redo" else []) + ts
        elif k < 65:
            argv = ["redo-ood"]
        elif k < 80:
            argv = ["redo-targets"]
        elif k < 92:
            argv = ["redo-sources"]
        else:
            argv = ["redo-log", "--no-pretty", sgen._pick(draw, allt)]
        env = {} if draw(st.integers(0, 1)) else {"REDO_LOG": "0"}
        cmds.append({"argv": argv, "env": env, "delay_ms": draw(st.sampled_from([0, 0, 0, 1, 3, 10, 20]))})
    pre = []
    if not fresh:
        pre = sgen._subset(draw, allt, 1, 3)
    rm = []
    if pre and draw(st.integers(0, 99)) < 40:
        # some produced files are removed before the race: query commands then find "generated, file gone"
        rm = sgen._subset(draw, pre, 1, 2)
    return {"project": proj, "cmds": cmds, "fresh": fresh, "prebuild": pre, "remove_before": rm,
            "edit_between": draw(st.integers(0, 1))}


def run_case(case, tier):
    out = hist.Outcome()
    disk = hist.P.Disk(hist.scratch_dir("c16"))
    procs = []
    try:
        disk.materialize(case["project"])
        if case["prebuild"]:
            r = runner.run_cmd(disk, ["redo-ifchange"] + case["prebuild"], env_extra={"REDO_LOG": "0"})
            if r.rc != 0:
                raise runner.Inconclusive("prebuild failed: %s" % r.text()[-300:])
            if case.get("edit_between"):
                disk.write("s0", hist.P.source_content("s0", 1))
            for t in case.get("remove_before", []):
                disk.remove(t)
                out.events["c16:produced-file-removed-before-the-race"] += 1
        disk.take_trace()
        t0 = time.time()
        for i, c in enumerate(case["cmds"]):
            if c["delay_ms"]:
                time.sleep(c["delay_ms"] / 1000.0)
            env = runner.base_env(disk, c["env"])
            fo = open(os.path.join(disk.ctl, "o.%d" % i), "wb")
            fe = open(os.path.join(disk.ctl, "e.%d" % i), "wb")
            p = subprocess.Popen(c["argv"], cwd=disk.root, env=env, stdin=subprocess.DEVNULL, stdout=fo, stderr=fe,
                                 start_new_session=True)
            fo.close()
            fe.close()
            procs.append((p, time.time()))
        ends = []
        deadline = time.time() + 90
        for p, ts in procs:
            try:
                p.wait(timeout=max(0.1, deadline - time.time()))
            except subprocess.TimeoutExpired:
                proof = runner.no_progress_proof(p.pid, windows=2, window_s=3.0)
                for q, _ in procs:
                    runner.kill_session(q.pid)
                if proof:
                    out.violation = {"property": "C09", "clause": "hang", "step": 0, "detail": {"proof": proof},
                                     "sig": {"symptom": "hang"}}
                    return out
                raise runner.Inconclusive("timeout")
            ends.append(time.time())
        out.commands = len(procs)
        ex, _, _, _ = hist.parse_trace(disk.take_trace())
        out.scripts = len(ex)
        writers = sum(1 for c in case["cmds"] if c["argv"][0] in ("redo", "redo-ifchange"))
        overlapped = sum(1 for i in range(len(procs)) for j in range(i) if procs[i][1] < ends[j])
        if overlapped and writers:
            out.nontrivial = True
        out.events["c16:" + ("first-ever-commands-racing" if case["fresh"] else "existing-state")] += 1
        if writers >= 2:
            out.events["c16:>=2-builds"] += 1
        if any(a in ("s0",) or a.startswith("u") for c in case["cmds"] if c["argv"][0] in ("redo", "redo-ifchange")
               for a in c["argv"][1:]):
            out.events["c16:existing-non-generated-file-named-on-a-command-line"] += 1
        if writers and writers < len(procs):
            out.events["c16:queries-beside-build"] += 1
        problems = []
        for i, (p, _) in enumerate(procs):
            text = b""
            for n in ("o.%d" % i, "e.%d" % i):
                with open(os.path.join(disk.ctl, n), "rb") as f:
                    text += f.read()
            text = text.decode("utf-8", "replace")
            argv = case["cmds"][i]["argv"]
            m = DBERR.search(text)
            if m:
                problems.append({"argv": argv, "rc": p.returncode, "symptom": m.group(0), "text": text[-800:]})
            elif p.returncode == 101 or "panicked at" in text:
                out.violation = {"property": "C09", "clause": "panic", "step": 0,
                                 "detail": {"argv": argv, "text": text[-1500:]},
                                 "sig": {"symptom": hist.panic_sig(text)}}
                return out
            elif p.returncode != 0:
                if argv[0] == "redo-log" and p.returncode == 24:
                    continue   # target not (yet) known to redo: attributable
                problems.append({"argv": argv, "rc": p.returncode, "symptom": "exit %d" % p.returncode,
                                 "text": text[-800:]})
        if problems:
            out.violation = {"property": "C16", "clause": "spurious-failure", "step": 0,
                             "detail": {"problems": problems[:5]},
                             "sig": {"symptom": problems[0]["symptom"], "fresh": case["fresh"]}}
            return out
        # records present: integrity + a final build of everything requested runs nothing
        dbp = os.path.join(disk.root, ".redo", "db.sqlite3")
        if os.path.exists(dbp):
            con = sqlite3.connect(dbp, timeout=10)
            try:
                ic = con.execute("pragma integrity_check").fetchall()
            finally:
                con.close()
            if ic != [("ok",)]:
                out.violation = {"property": "C16", "clause": "db-integrity", "step": 0, "detail": {"ic": ic[:5]},
                                 "sig": {"symptom": "integrity", "fresh": case["fresh"]}}
                return out
        # records present: every script that ran to completion has its Files row (generated) and one Deps row
        # per dependency it declared (its .do file and every redo-ifchange argument)
        files, deps = hist.db_rows(disk)
        byname = {r[1]: r for r in files}
        byid = {r[0]: r[1] for r in files}
        edges = set((byid.get(t), byid.get(sx), mode) for (t, sx, mode, dm) in deps)
        missing = []
        dof = case["project"]["dofiles"]
        # (a produced file that was removed before the race and not rebuilt is legitimately forgotten as a target)
        for t in sorted(set(ex) | (set(case["prebuild"]) - set(case.get("remove_before", [])))):
            row = byname.get(t)
            if row is None or not row[2]:
                missing.append("Files row for %s (%r)" % (t, row))
                continue
            want = [t + ".do"]
            for stt in dof.get(t + ".do", {"body": []})["body"]:
                if stt[0] == "dep":
                    want += stt[2]
            for q in want:
                if (t, q, "m") not in edges:
                    missing.append("Deps %s -> %s" % (t, q))
        if missing:
            out.violation = {"property": "C16", "clause": "lost-records", "step": 0,
                             "detail": {"missing": missing[:20], "executed": ex},
                             "sig": {"symptom": "lost-records", "fresh": case["fresh"]}}
            return out
        # and a final serial build of everything the concurrent builds were asked for succeeds
        built = set()
        for c in case["cmds"]:
            if c["argv"][0] in ("redo", "redo-ifchange"):
                built |= set(a for a in c["argv"][1:] if not a.startswith("-"))
        if built:
            r = runner.run_cmd(disk, ["redo-ifchange"] + sorted(built), env_extra={"REDO_LOG": "0"})
            disk.take_trace()
            if r.rc != 0:
                m = DBERR.search(r.text())
                out.violation = {"property": "C16", "clause": "final-build-failed", "step": 0,
                                 "detail": {"cmd": r.brief()},
                                 "sig": {"symptom": m.group(0) if m else "final-build-failed", "fresh": case["fresh"]}}
        return out
    finally:
        for p, _ in procs:
            runner.kill_session(p.pid)
        import shutil
        shutil.rmtree(disk.base, ignore_errors=True)


class Spec:
    id = "C16"
    level = "exploration"
    rule = ("2-10 top-level commands (redo -j1..4 / redo-ifchange on overlapping target sets, redo-ood, redo-targets, "
            "redo-sources, redo-log) started within 0-20 ms of each other on a layered project, 25% of the cases on a "
            "project that has no .redo yet, the others after a serial pre-build (and optionally a source edit); all "
            "scripts succeed. Oracle: every command exits 0 (redo-log may exit 24 for a target not yet known); no "
            "output contains an SQLite busy/locked/no-such-table/I-O error; afterwards pragma integrity_check is ok "
            "every script that ran has its Files row marked generated and a Deps row for its .do file and for each declared dependency, and a final serial redo-ifchange of everything requested succeeds. "
            "Non-trivial = at least two commands overlapped in time and at least one of them was a build.")
    assumptions = ["transaction interleavings are whatever the kernel scheduler produces for near-simultaneous starts "
                   "(16 workers add load noise); they are not enumerated"]

    def accepts(self, case):
        return "hold" not in case

    def cases(self, tier):
        return 320 if tier == "quick" else 6000

    def strategy(self, tier):
        return cases(tier)

    def run_case(self, case, tier):
        return run_case(case, tier)


SPEC = Spec()


def spec_for(case):
    from . import c16hold
    return c16hold.SPEC if "hold" in case else SPEC


def run_check(tier, seed):
    from .. import engine
    code, ev = engine.run_property("rv.props.c16", tier, seed)
    code2, ev2 = engine.run_property("rv.props.c16hold", tier, seed)
    ev = engine.merge_evidence(ev, ev2, "free-running concurrent commands",
                               "commands started while a script's redo-stamp waits for its input")
    return (1 if 1 in (code, code2) else max(code, code2)), ev
