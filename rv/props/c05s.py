"""C05, parallel tier (engine S): what a redo process may still start once it knows about a failure, keep-going,
second requesters -- under harness-owned schedules, optionally with another invocation holding locks."""
import re

from hypothesis import strategies as st

from .. import hist, runner, sched, sgen
from .. import model as M
from .c09 import BAD


@st.composite
def cases(draw, tier):
    proj = draw(sgen.graphs({"max_leaf": 5, "max_mid": 4, "p_gate": 80, "p_csum": 10, "p_always": 5, "p_fail": 35}))
    L = proj["layers"]
    shared = None
    if len(L["leaves"]) >= 2 and draw(st.integers(0, 99)) < 30:
        # directed family: two dependents of one failing leaf, the second one held at a gate BEFORE it asks for
        # [failing leaf, other leaf] in one call -- by then the failure is on record ("failed in this run")
        f, g = sgen._subset(draw, L["leaves"], 2, 2)
        fb = proj["dofiles"][f + ".do"]["body"]
        if not any(s[0] == "failflag" for s in fb):
            fb.insert(draw(st.integers(0, len(fb) - 1)), ["failflag", f, 3])
        proj["dofiles"]["ma.do"] = {"v": 1, "body": [["dep", 1, [f]], ["out", "stdout"]]}
        proj["dofiles"]["mb.do"] = {"v": 1, "body": [["work", 0], ["dep", 1, [f, g]], ["out", "stdout"]]}
        L["mids"] += ["ma", "mb"]
        proj["targets"] += ["ma", "mb"]
        shared = (f, g)
    allt = L["tops"] + L["mids"] + L["leaves"]
    fails = sorted({s[1] for spec in proj["dofiles"].values() for s in spec["body"] if s[0] == "failflag"})
    failing = [f for f in fails if draw(st.integers(0, 2)) > 0]
    if shared and shared[0] not in failing:
        failing.append(shared[0])
    keep = draw(st.integers(0, 2)) == 0
    env = {} if draw(st.integers(0, 1)) else {"REDO_LOG": "0"}
    if keep:
        env["REDO_KEEP_GOING"] = "1"
    ts = sgen._subset(draw, allt, 2, 5)
    if shared:
        ts = ["ma", "mb"] + [t for t in ts if t not in ("ma", "mb")][:draw(st.integers(0, 2))]
    kind = draw(st.sampled_from(["redo", "redo", "ifchange"]))
    m = M.Model(proj)
    if kind == "redo":
        keepts = []
        for t in ts:
            if all(t not in m.closure(u) and u not in m.closure(t) for u in keepts):
                keepts.append(t)
        ts = keepts
    jobs = draw(st.sampled_from([1, 2, 2, 3, 4]))
    if shared:
        jobs = max(jobs, 2)
    js = None
    if kind == "redo":
        argv = ["redo", "-j%d" % jobs] + ts
    else:
        argv = ["redo-ifchange"] + ts
        js = {"tokens": jobs - 1, "held": 0, "high": draw(st.integers(0, 1)) == 1}
    invs = [{"argv": argv, "cwd": "", "env": env, "jobserver": js, "kind": kind, "keep": keep, "jobs": jobs,
             "targets": ts}]
    holder = draw(st.integers(0, 99)) < 45
    if holder:
        # another invocation, started first, that holds some of the same targets at their gates: the measured one
        # finds them locked, queues them and comes back to them after its own jobs -- possibly after a failure
        hts = []
        for t in sgen._subset(draw, allt, 1, 3):
            # (`redo X Y` with Y in X's closure legitimately runs Y twice: statement-silent shape, DESIGN §5)
            if all(t not in m.closure(u) and u not in m.closure(t) for u in hts):
                hts.append(t)
        invs.insert(0, {"argv": ["redo", "-j%d" % draw(st.integers(1, 3))] + hts, "cwd": "",
                        "env": {"REDO_LOG": "0", "REDO_KEEP_GOING": "1"}, "jobserver": None, "kind": "redo",
                        "keep": True, "jobs": 1, "targets": hts})
    return {"project": proj, "invs": invs, "measured": len(invs) - 1, "failing": failing,
            "schedule": draw(sgen.schedule()),
            "sopts": {"seed": draw(st.integers(1, 2 ** 31 - 1)), "coincide": draw(st.integers(0, 3)) == 0,
                      "token_games": False, "patient": draw(st.integers(0, 1)) == 1, "start_first": holder}}


class Runner(sched.SchedRunner):
    def __init__(self, case, tag):
        sched.SchedRunner.__init__(self, case, tag)
        for f in case.get("failing", []):
            self.disk.set_fail(f, True)
        self.qpoints = []          # event-sequence numbers at which the whole system was quiescent

    def quiescent(self, timeout=None):
        res = sched.SchedRunner.quiescent(self, timeout)
        if res:
            self.qpoints.append(len(self.tl.ev))
        return res


def session_of(r, pid, cache):
    """Index of the invocation whose process tree contains pid (walks ppid links while the processes are alive;
    called when the S event of one of its children is processed, so the owner is alive)."""
    if pid in cache:
        return cache[pid]
    cur, hops = pid, 0
    res = None
    while cur and cur > 1 and hops < 40:
        for inv in r.invs:
            if inv.proc is not None and inv.proc.pid == cur:
                res = inv.idx
        if res is not None:
            break
        _, _, ppid, _ = sched.proc_state(cur)
        cur = ppid
        hops += 1
    cache[pid] = res
    return res


def run_case(case, tier):
    out = hist.Outcome()
    r = Runner(case, tag="c05s")
    owner_inv = {}
    orig_add = r.tl.add

    ppid_of = {}

    def add(kind, target, pid, extra):
        orig_add(kind, target, pid, extra)
        if kind == "S" and extra:
            session_of(r, extra, owner_inv)
            if extra not in ppid_of:
                _, _, pp, _ = sched.proc_state(extra)
                ppid_of[extra] = pp
    r.tl.add = add
    try:
        r.run()
        out.commands = len(r.invs)
        out.scripts = sum(r.tl.starts.values())
        if r.hang:
            out.violation = {"property": "C09", "clause": "hang", "step": 0, "detail": {"proof": r.hang},
                             "sig": {"symptom": "hang"}}
            return out
        if getattr(r, "deadline_hit", False) or any(i.rc is None for i in r.invs):
            raise runner.Inconclusive("deadline")
        texts = [r.inv_text(i) for i in r.invs]
        for inv, text in zip(r.invs, texts):
            mb = BAD.search(text)
            if inv.rc == 101 or (mb and ("panicked" in mb.group(0) or "assertion" in mb.group(0))):
                out.violation = {"property": "C09", "clause": "panic", "step": 0,
                                 "detail": {"argv": inv.spec["argv"], "text": text[-1500:]},
                                 "sig": {"symptom": hist.panic_sig(text)}}
                return out
        mi = case["measured"]
        minv = r.invs[mi]
        spec = minv.spec
        ev = out.events
        m = M.Model(case["project"])
        m.failflags = set(case.get("failing", []))
        # which targets' scripts fail by themselves / cannot succeed because something they need fails
        memo = {}
        cannot = set(t for t in m.targets if m.from_scratch(t, memo) is M.FAIL)
        requested = M._dedup(spec["targets"])
        need_fail = [t for t in requested if t in cannot]
        ctx = {"invs": [i.spec["argv"] for i in r.invs], "envs": [i.spec["env"] for i in r.invs],
               "rcs": [i.rc for i in r.invs], "failing_flags": case.get("failing"),
               "decisions": r.tl.decisions[-40:], "events": [e[1:] for e in r.tl.ev[-80:]],
               "text": texts[mi][-1500:]}
        failed_scripts = [(seq, t, pid) for (seq, k, t, pid, extra) in r.tl.ev if k == "X" and extra != 0]
        if failed_scripts:
            out.nontrivial = True
            ev["c05s:failure-reached"] += 1
            if spec["jobs"] >= 2:
                ev["c05s:parallel"] += 1
            if spec["keep"]:
                ev["c05s:keep-going"] += 1
            if len(r.invs) > 1:
                ev["c05s:with-lock-holder-invocation"] += 1
        # a failing script is no reason to abandon the jobs that are still running (only "start nothing new")
        if r.orphans:
            out.violation = {"property": "C05", "clause": "running-jobs-abandoned-after-a-failure", "step": 0,
                             "detail": dict(ctx, orphans=r.orphans[:5]),
                             "sig": {"symptom": "orphaned-job", "tier": "parallel"}}
            return out
        # (1) exit status: non-zero iff something requested cannot be built
        if (minv.rc != 0) != bool(need_fail):
            if minv.rc != 0 and not need_fail and len(r.invs) > 1:
                pass   # a target failed in the other invocation's run may be reported to this one: attributable
            else:
                out.violation = {"property": "C05", "clause": "exit-status", "step": 0,
                                 "detail": dict(ctx, need_fail=need_fail),
                                 "sig": {"symptom": "exit %s, failing needed: %s" % (minv.rc, bool(need_fail)),
                                         "tier": "parallel"}}
                return out
        # (2) a failing script is not executed twice by one invocation
        per_inv = {}
        for (seq, k, t, pid, extra) in r.tl.ev:
            if k == "S":
                per_inv.setdefault((owner_inv.get(extra), t), []).append(pid)
        failed_targets = set(t for (_, t, _) in failed_scripts)
        # (a target that ANOTHER invocation also ran is left out: that invocation's failure record carries its own,
        # possibly older, run id and replaces ours -- concurrent invocations are outside this property's quantifier)
        started_by = {}
        for (i, t) in per_inv:
            started_by.setdefault(t, set()).add(i)
        twice = sorted((str(i), t) for (i, t), pids in per_inv.items() if t in failed_targets and len(pids) > 1
                       and i is not None and started_by[t] == {i})
        if twice:
            out.violation = {"property": "C05", "clause": "failed-target-executed-twice-in-one-run", "step": 0,
                             "detail": dict(ctx, twice=twice), "sig": {"symptom": "twice", "tier": "parallel"}}
            return out
        # (6) without keep-going: once a redo process knows a failure (a script it owns exited non-zero and the
        # system was quiescent afterwards), it starts nothing new
        keep_by_inv = {i.idx: bool(i.spec.get("keep")) for i in r.invs}
        first_fail = {}   # redo pid -> seq of the first failing exit among the scripts it owns
        for (seq, t, pid) in failed_scripts:
            own = r.tl.owner.get(pid)
            if own is not None:
                first_fail.setdefault(own, seq)
        late = []
        for own, fseq in first_fail.items():
            inv_i = owner_inv.get(own)
            if inv_i is None or keep_by_inv.get(inv_i):
                continue
            q = next((qp for qp in r.qpoints if qp > fseq), None)
            if q is None:
                continue
            for (seq, k, t, pid, extra) in r.tl.ev:
                if k == "S" and extra == own and seq >= q:
                    late.append({"redo_pid": own, "started": t, "seq": seq, "failure_seq": fseq, "quiescent_at": q})
            ev["c05s:failure-known-then-quiescent(checked)"] += 1
        if late:
            out.violation = {"property": "C05", "clause": "started-after-known-failure", "step": 0,
                             "detail": dict(ctx, late=late[:5]),
                             "sig": {"symptom": "late-start", "tier": "parallel", "holder": len(r.invs) > 1}}
            return out
        # (6b) ... nor does a redo process that is TOLD about a failure: a redo-ifchange created after the failure of
        # x was on record (its calling script left a gate after the quiescent point that followed x's failing exit)
        # gets "x failed in this run" without running anything, and must not start what is listed after x
        if not spec["keep"]:
            dof = case["project"]["dofiles"]
            told = []
            gate_left = {}      # script pid -> [seq of its E events]
            script_target = {}
            for (seq, k, t, pid, extra) in r.tl.ev:
                if k == "E":
                    gate_left.setdefault(pid, []).append(seq)
                if k == "S":
                    script_target[pid] = t
            for (fseq, x, xpid) in failed_scripts:
                xo = r.tl.owner.get(xpid)
                if xo is None or owner_inv.get(xo) != mi:
                    continue            # failed in another invocation's run
                q = next((qp for qp in r.qpoints if qp > fseq), None)
                if q is None:
                    continue
                for (seq, k, t, pid, extra) in r.tl.ev:
                    if k != "S" or seq < q or not extra or owner_inv.get(extra) != mi:
                        continue
                    caller = ppid_of.get(extra)          # the script that ran this redo-ifchange
                    ct = script_target.get(caller)
                    if ct is None or ct + ".do" not in dof:
                        continue
                    # the call that lists x before t, placed after a gate the caller left after q
                    body = dof[ct + ".do"]["body"]
                    gates_before = 0
                    hit = False
                    for stt in body:
                        if stt[0] == "work":
                            gates_before += 1
                        elif stt[0] == "dep" and x in stt[2] and t in stt[2] and stt[2].index(x) < stt[2].index(t):
                            hit = True
                            break
                    if not hit or gates_before == 0:
                        continue
                    left = gate_left.get(caller, [])
                    if len(left) >= gates_before and left[gates_before - 1] >= q:
                        told.append({"failed": x, "failure_seq": fseq, "quiescent_at": q, "caller": ct,
                                     "started": t, "seq": seq})
            ev["c05s:told-about-failure(checked)"] += 1 if failed_scripts else 0
            if told:
                out.violation = {"property": "C05", "clause": "started-after-reported-failure", "step": 0,
                                 "detail": dict(ctx, told=told[:5]),
                                 "sig": {"symptom": "late-start-told", "tier": "parallel", "holder": len(r.invs) > 1}}
                return out
        # (5) keep-going: everything requested that does not depend on a failing target is built and correct
        if spec["keep"]:
            bad = []
            for t in requested:
                if t in cannot:
                    continue
                want = m.from_scratch(t, memo)
                got = r.disk.read(t)
                if got != want:
                    bad.append({"target": t, "got": hist._short(got), "want": hist._short(want)})
            if bad:
                out.violation = {"property": "C05", "clause": "keep-going-skipped-independent-target", "step": 0,
                                 "detail": dict(ctx, bad=bad[:5]), "sig": {"symptom": "keep-going", "tier": "parallel"}}
                return out
        # (4) nothing that depends on a failed target is left looking up to date: redo-ood lists every previously
        # generated dependent that was requested -- first builds here, so: a requested target that cannot be built
        # has no file with from-scratch-looking content
        return out
    finally:
        r.close()


class Spec:
    id = "C05"
    level = "exploration"
    rule = ("Parallel tier: layered graphs with 80% gated scripts and 35% of the rules failing iff a harness flag exists; "
            "one measured invocation (redo -j1..4 on mutually independent targets, or redo-ifchange under a harness "
            "jobserver), keep-going in a third of the cases, and in 45% another invocation started first that holds "
            "some of the same targets at their gates (the measured one queues them and returns to them later); "
            "harness-owned schedule with coincidences. Oracles: exit status non-zero iff a requested target cannot be "
            "built; no failing script starts twice within one invocation; without keep-going, once a script owned by "
            "a redo process has exited non-zero and the system has been quiescent since, that redo process starts no "
            "further script; with keep-going every requested target that does not depend on a failing one has "
            "from-scratch content at the end. Non-trivial = a failing script was reached.")
    assumptions = ["'knows about the failure' is taken as: the failing script's exit was followed by a quiescent point "
                   "(every process blocked), so the owning redo process has certainly reaped it"]

    def accepts(self, case):
        return "invs" in case

    def cases(self, tier):
        return 400 if tier == "quick" else 4000

    def strategy(self, tier):
        return cases(tier)

    def run_case(self, case, tier):
        return run_case(case, tier)


SPEC = Spec()
