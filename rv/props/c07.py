"""C07 - each target built at most once per run; outcome independent of schedule (engine S + serial differential)."""
import collections
import os
import re
import shutil

from hypothesis import strategies as st

from .. import hist, runner, sched, sgen
from .. import model as M
from .. import project as P
from .c09 import BAD


def independent(m, ts):
    keep = []
    for t in ts:
        if all(t not in m.closure(u) and u not in m.closure(t) for u in keep):
            keep.append(t)
    return keep


@st.composite
def cases(draw, tier, override=None):
    go = {"max_leaf": 6 if tier == "quick" else 10, "max_mid": 5 if tier == "quick" else 9,
          "p_csum": 25, "p_always": 15, "p_gate": 60, "p_stem": 35, "p_postgate": 25, "p_lossy": 50,
          "p_poststamp_gate": 20}
    if not override:
        go["p_stem_default"] = 50
    go.update(override or {})
    with_failures = not override and draw(st.integers(0, 99)) < 25
    if with_failures:
        go["p_fail"] = 30
    proj = draw(sgen.graphs(go))
    directed = not override and not with_failures and draw(st.integers(0, 99)) < 20
    if directed:
        # directed family: a diamond over the out-of-band path.  a depends on the checksummed, gated c; x and y (and
        # sometimes z) both ask for a; after a complete build and an edit, a is only MAYBE out of date, so the first
        # requester settles c through redo-unlocked while holding a's lock -- and the other requesters arrive meanwhile
        lossy = draw(st.integers(0, 1))
        dof = {"c.do": {"v": 1, "body": [["dep", 0 if lossy else 1, ["s0"]], ["work", 1], ["out", "stdout"], ["stamp"]] +
                        ([["work", 4]] if draw(st.integers(0, 1)) else [])},
               "a.do": {"v": 1, "body": [["dep", 1, ["c"]]] + ([["work", 2]] if draw(st.integers(0, 1)) else []) +
                        [["out", draw(st.sampled_from(["stdout", "file"]))]]}}
        req = ["x", "y"] + (["z"] if draw(st.integers(0, 1)) else [])
        for q in req:
            body = [["dep", 1, ["s0"]]] if draw(st.integers(0, 2)) == 0 else []
            if draw(st.integers(0, 1)):
                body.append(["work", 0])
            body += [["dep", 1, ["a"]], ["out", "stdout"]]
            dof[q + ".do"] = {"v": 1, "body": body}
        dof["top0.do"] = {"v": 1, "body": [["dep", 1, req], ["out", "stdout"]]}
        proj = {"dirs": [""], "sources": ["s0"], "dofiles": dof, "targets": ["c", "a"] + req + ["top0"], "watch": [],
                "layers": {"leaves": ["c"], "mids": ["a"] + req, "tops": ["top0"]}}
    L = proj["layers"]
    allt = L["tops"] + L["mids"] + L["leaves"]
    kind = draw(st.sampled_from(["redo", "redo", "ifchange"]))
    m = M.Model(proj)
    ts = sgen._subset(draw, L["tops"] + L["mids"], 1, 3)
    if directed:
        ts = ["top0"] if draw(st.integers(0, 1)) else list(req)
        kind = "ifchange" if ts == ["top0"] or draw(st.integers(0, 1)) else "redo"
    if kind == "redo":
        ts = independent(m, ts)
    elif draw(st.integers(0, 99)) < 40:
        # a redo-ifchange command line may also name a leaf next to the targets that depend on it: the dependent is
        # then CHECKED (not built) by a sibling job while the leaf's own script is still running
        ts = sgen._subset(draw, L["leaves"], 1, 2) + ts
    if draw(st.integers(0, 99)) < 25:
        ts = ts + [ts[0]]     # duplicate name on the command line
    env = {}
    if draw(st.integers(0, 1)):
        env["REDO_LOG"] = "0"
    js = None
    if kind == "redo":
        argv = ["redo", "-j%d" % draw(st.integers(3 if directed else 1, 8))]
        if draw(st.integers(0, 2)) == 0:
            argv.append("--shuffle")
        argv += ts
    else:
        argv = ["redo-ifchange"] + ts
        js = {"tokens": draw(st.integers(2 if directed else 0, 4)), "held": 0, "high": draw(st.integers(0, 1)) == 1}
    fails = sorted({s_[1] for spec in proj["dofiles"].values() for s_ in spec["body"] if s_[0] == "failflag"})
    failing = [f for f in fails if draw(st.integers(0, 2)) > 0] if with_failures else []
    return {"project": proj, "invs": [{"argv": argv, "cwd": "", "env": env, "jobserver": js}], "targets": ts,
            "failing": failing, "directed": directed,
            "kind": kind, "prebuild": True if directed else draw(st.integers(0, 1)) == 1, "schedule": draw(sgen.schedule()),
            "sopts": {"seed": draw(st.integers(0, 2 ** 31 - 1)), "coincide": draw(st.integers(0, 2)) > 0, "token_games": False,
                      "patient": draw(st.integers(0, 3)) == 0}}


def db_shape(disk):
    files, deps = hist.db_rows(disk)
    byid = {r[0]: r[1] for r in files}
    fl = sorted((r[1], bool(r[2]), bool(r[3]), bool(r[8]), r[6] is not None and r[6] != 0) for r in files)
    dp = sorted((byid.get(t), byid.get(s), mode) for (t, s, mode, dm) in deps)
    return fl, dp


def run_case(case, tier):
    out = hist.Outcome()
    r = sched.SchedRunner(case, tag="c07p")
    serial = None
    try:
        pre_ts = hist.M._dedup(case["targets"])
        if case.get("prebuild"):
            # a previous complete serial build, then the common source is edited: the parallel run under test is a
            # *rebuild* (reaches the out-of-band / checksum paths), not a first build
            pr = runner.run_cmd(r.disk, ["redo-ifchange"] + pre_ts, env_extra=r.invs[0].spec["env"])
            if pr.rc != 0:
                raise runner.Inconclusive("prebuild failed")
            r.disk.take_trace()
            r.disk.write("s0", P.source_content("s0", 1))
        for f in case.get("failing", []):
            r.disk.set_fail(f, True)      # (after the pre-build: failures at a later rebuild)
        r.run()
        inv = r.invs[0]
        out.commands = 1
        out.scripts = sum(r.tl.starts.values())
        text = r.inv_text(inv)
        if r.hang:
            out.violation = {"property": "C09", "clause": "hang", "step": 0, "detail": {"proof": r.hang},
                             "sig": {"symptom": "hang"}}
            return out
        if getattr(r, "deadline_hit", False) or inv.rc is None:
            raise runner.Inconclusive("deadline")
        mb = BAD.search(text)
        if inv.rc == 101 or mb:
            out.violation = {"property": "C09", "clause": "crash", "step": 0,
                             "detail": {"argv": inv.spec["argv"], "rc": inv.rc, "text": text[-1500:]},
                             "sig": {"symptom": hist.panic_sig(text) if inv.rc == 101 else mb.group(0)}}
            return out
        m = M.Model(case["project"])
        ts = hist.M._dedup(case["targets"])
        if case.get("prebuild"):
            m.cmd_ifchange(ts)
            m.user_write("s0", P.source_content("s0", 1))
        if case.get("directed"):
            out.events["c07:directed-diamond-over-the-out-of-band-path"] += 1
        if case.get("failing"):
            m.failflags = set(case["failing"])
            out.events["c07:with-failing-scripts"] += 1
            out.events["c07:rebuild-after-edit"] += 1
            if m.oob_used or hist.has_nested_csum(m):
                pass
        # (what the implementation's single-round out-of-band settle would execute: known finding D12, exactly)
        m1 = None
        if hist.has_nested_csum(m):
            m1 = set(frozenset(k for k, _ in o) for o in m.single_round_outcomes(case["kind"], ts))
        ok_model = m.cmd_redo(ts) if case["kind"] == "redo" else m.cmd_ifchange(ts)
        requesters = {}
        for dof, spec in case["project"]["dofiles"].items():
            for stt in spec["body"]:
                if stt[0] == "dep":
                    for q in stt[2]:
                        requesters[q] = requesters.get(q, 0) + 1
        jobs = 1
        for a in inv.spec["argv"]:
            mm = re.match(r"-j(\d+)", a)
            if mm:
                jobs = int(mm.group(1))
        if inv.spec.get("jobserver"):
            jobs = 1 + inv.spec["jobserver"]["tokens"]
        shared = [t for t in m.executed if requesters.get(t, 0) >= 2]
        if jobs >= 2 and shared:
            out.nontrivial = True
            out.events["c07:parallel-with-shared-target"] += 1
        if r.tl.max_running >= 2:
            out.events["c07:>=2-scripts-alive-at-once"] += 1
        if r.coincidences:
            out.events["c07:coincidence"] += 1
        if m.oob_used:
            out.events["c07:out-of-band-path"] += 1
        stems = collections.Counter(t.split(".")[0] for t in set(m.executed))
        if any(n >= 2 for n in stems.values()):
            out.events["c07:same-stem-siblings-built"] += 1
        ctx = {"argv": inv.spec["argv"], "rc": inv.rc, "text": text[-1500:], "decisions": r.tl.decisions[-30:],
               "starts": dict(r.tl.starts), "model_executed": m.executed}
        # (1) at most once per run
        dup = sorted(t for t, n in r.tl.starts.items() if n > 1)
        if dup:
            out.violation = {"property": "C07", "clause": "twice-in-run", "step": 0, "detail": dict(ctx, dup=dup),
                             "sig": {"symptom": "twice"}}
            return out
        if r.tl.overlaps:
            out.violation = {"property": "C07", "clause": "twice-in-run", "step": 0,
                             "detail": dict(ctx, overlaps=r.tl.overlaps[:5]), "sig": {"symptom": "twice"}}
            return out
        # (2) exit status + bytes == model (== serial build, checked below as well)
        if (inv.rc == 0) != ok_model:
            out.violation = {"property": "C07", "clause": "exit-status", "step": 0, "detail": ctx,
                             "sig": {"symptom": "exit %d" % inv.rc}}
            return out
        if case.get("failing") and r.orphans:
            # a redo process left while a script it had started was still at a gate: that script's result is never
            # recorded, which no serial build does (there, nothing runs any more when a failure ends the command)
            out.violation = {"property": "C07", "clause": "running-job-abandoned-result-never-recorded", "step": 0,
                             "detail": dict(ctx, orphans=r.orphans[:5]), "sig": {"symptom": "orphaned-job"}}
            return out
        if case.get("failing") and not ok_model:
            # what else gets built before a failure stops the command depends on the schedule (without keep-going):
            # only "at most once" and the exit status are compared with the serial build
            out.events["c07:failure-reached(once-per-run and exit status only)"] += 1
            return out
        if set(r.tl.starts) != set(m.executed):
            nested = hist.has_nested_csum(m)
            if m1 is not None and set(m.executed) < set(r.tl.starts) and frozenset(r.tl.starts) in m1:
                # exactly the over-build of the single-round settle: C02/C03's known finding D12, not a schedule effect
                out.violation = {"property": "C02", "clause": "exec-set", "step": 0, "detail": dict(ctx),
                                 "sig": {"symptom": "extra", "nested_csum": True}}
                return out
            out.violation = {"property": "C07", "clause": "executed-set-differs-from-serial", "step": 0,
                             "detail": dict(ctx), "sig": {"symptom": "exec-set", "nested_csum": False,
                                                          "nested_csum_project": nested}}
            return out
        bad = []
        for p_, f in m.fs.items():
            got = r.disk.read(p_)
            if got != f.data:
                bad.append({"path": p_, "got": hist._short(got), "want": hist._short(f.data)})
        if bad:
            out.violation = {"property": "C07", "clause": "content-differs-from-serial", "step": 0,
                             "detail": dict(ctx, bad=bad[:5]), "sig": {"symptom": "content"}}
            return out
        # (3) recorded dependency state == that of a real serial build in a sibling directory
        serial = P.Disk(hist.scratch_dir("c07s"))
        serial.materialize(case["project"])
        if case.get("prebuild"):
            runner.run_cmd(serial, ["redo-ifchange"] + ts, env_extra=inv.spec["env"])
            serial.write("s0", P.source_content("s0", 1))
        sargv = ["redo", "-j1"] + ts if case["kind"] == "redo" else ["redo-ifchange"] + ts
        sr = runner.run_cmd(serial, sargv, env_extra=inv.spec["env"])
        if sr.rc != inv.rc:
            out.violation = {"property": "C07", "clause": "exit-status-vs-serial", "step": 0,
                             "detail": dict(ctx, serial=sr.brief()), "sig": {"symptom": "exit-vs-serial"}}
            return out
        a, b = db_shape(r.disk), db_shape(serial)
        if a != b:
            diff_f = [x for x in a[0] if x not in b[0]] + [("serial-only",) + x for x in b[0] if x not in a[0]]
            diff_d = [x for x in a[1] if x not in b[1]] + [("serial-only",) + x for x in b[1] if x not in a[1]]
            # is every differing edge (t -> s) one whose s is anyway in t's dependency closure?
            within = all((x[-3] in m.targets and x[-2] in m.closure(x[-3])) for x in diff_d)
            out.violation = {"property": "C07", "clause": "dependency-state-differs-from-serial", "step": 0,
                             "detail": dict(ctx, files=diff_f[:10], deps=diff_d[:10]),
                             "sig": {"symptom": "db-state", "deps_only": not diff_f,
                                     "extra_edges_all_within_closure": within,
                                     "out_of_band": bool(m.oob_used) or "@@REDO:check:" in text
                                     or "@@REDO:check:" in sr.text() or oob_in_logs(r.disk) or oob_in_logs(serial)}}
            return out
        # (4) a following redo-ifchange runs nothing but always-targets, in the parallel tree
        r.disk.take_trace()
        fr = runner.run_cmd(r.disk, ["redo-ifchange"] + ts, env_extra={"REDO_LOG": "0"})
        ex2, _, _, _ = hist.parse_trace(r.disk.take_trace())
        m2ok = m.cmd_ifchange(ts)
        if fr.rc != 0 or sorted(ex2) != sorted(m.executed):
            out.violation = {"property": "C07", "clause": "follow-up-build-not-clean", "step": 0,
                             "detail": dict(ctx, rebuilt=ex2, model=m.executed, cmd=fr.brief()),
                             "sig": {"symptom": "follow-up", "nested_csum": hist.has_nested_csum(m)}}
        return out
    finally:
        r.close()
        if serial is not None:
            shutil.rmtree(serial.base, ignore_errors=True)


def oob_in_logs(disk):
    """With log capture on, the `check` record of an out-of-band settle started by a NESTED redo-ifchange goes to the
    log file of the target whose script made the call, not to the top-level's stderr."""
    d = os.path.join(disk.root, ".redo")
    try:
        names = [n for n in os.listdir(d) if n.startswith("log.")]
    except OSError:
        return False
    for n in names:
        try:
            with open(os.path.join(d, n), "rb") as f:
                if b"@@REDO:check:" in f.read():
                    return True
        except OSError:
            pass
    return False


class Spec:
    id = "C07"
    level = "exploration"
    rule = ("Layered graphs with diamonds and shared leaves (some checksummed / always), one invocation: redo -j1..8 "
            "[--shuffle] on mutually independent targets, or redo-ifchange under a harness jobserver with 0-4 tokens; "
            "duplicate names on the command line; log capture on/off; harness-owned schedule with coincidences. "
            "Oracles: every target's script starts at most once; exit status, executed set and every file's bytes "
            "equal the reference model's serial evaluation; Files flags and Deps edges (by name) equal those of a "
            "real serial build of the same project in a sibling directory; a following redo-ifchange runs exactly "
            "what the model predicts (always-targets only). Non-trivial = effective parallelism >= 2 and some "
            "executed target is requested by >= 2 scripts.")
    assumptions = ["`redo X Y` with Y in X's closure is not generated (statement silent, DESIGN §5)"]

    def cases(self, tier):
        return 480 if tier == "quick" else 4800

    def strategy(self, tier):
        return cases(tier)

    def run_case(self, case, tier):
        return run_case(case, tier)


SPEC = Spec()
