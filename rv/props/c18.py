"""C18 - build output is logged completely, once, and under the right target (in-process round trip + end-to-end)."""
import os
import posixpath
import re
import time

from hypothesis import strategies as st

from .. import engine, hist, inproc, runner
from .. import model as M

META = re.compile(r"^@@REDO:([^:@]*):(\d+):([0-9.]+)@@ (.*)$")


@st.composite
def payloads(draw):
    k = draw(st.integers(0, 99))
    if k < 10:
        return ""
    if k < 60:
        return draw(st.text(alphabet="abcXYZ 019_-=/.,;äλ", min_size=1, max_size=40))
    if k < 70:
        return draw(st.text(alphabet="ab ", min_size=1, max_size=20)) + "   "   # trailing whitespace
    if k < 80:
        return "x" * draw(st.sampled_from([4095, 4096, 8191, 70000]))
    if k < 90:
        return draw(st.sampled_from(["@@", "@@REDO", "redo  t0", "@ @REDO:do:1:1.0@@", "::", "@@REDO:x"]))
    return draw(st.text(alphabet="\t #$%&*()[]{}<>|\\'\"`~!?", min_size=1, max_size=30))


@st.composite
def cases(draw, tier):
    nt = draw(st.integers(2, 7))
    # some targets live in a sub-directory: their dependents in the other directory name them through `sub/` or
    # `../`, so one target is reached under several spellings
    use_sub = draw(st.integers(0, 99)) < 45
    targets = [("sub/" if use_sub and draw(st.integers(0, 99)) < 45 else "") + "t%d" % i for i in range(nt)]
    # some of the targets in sub/ are built by a default.<ext>.do in the ROOT directory: their scripts run with a
    # working directory that is not the target's directory (names in their log records are relative to the former)
    by_default = {}
    for i, t in enumerate(targets):
        if t.startswith("sub/") and draw(st.integers(0, 99)) < 40:
            targets[i] = "%s.e%d" % (t, i)
            by_default[targets[i]] = "default.e%d.do" % i
    dofiles = {}
    errfiles = {}
    expect = {}
    d16_moved = False
    has_record_line = False
    record_like = draw(st.integers(0, 99)) < 4
    for i, t in enumerate(targets):
        deps = [targets[j] for j in range(i) if draw(st.integers(0, 99)) < 45]
        # the script's stderr is one byte string of numbered lines, written in several pieces; a piece boundary may
        # fall on a line boundary or anywhere inside a line, and one line may be cut into up to five pieces
        lines = [draw(payloads()) for _ in range(draw(st.integers(0, 7)))]
        # "lines that resemble structured records" in the strict sense: the WHOLE line has the form of one of redo's
        # own records (the protocol is in-band). Known finding D15: kept to a small share of the cases.
        rec_at = None
        if lines and record_like:
            rec_at = draw(st.integers(0, len(lines) - 1))
        prefix = {}
        if rec_at is not None:
            prefix[rec_at] = "@@REDO:%s:%d:%d.%04d@@ " % (draw(st.sampled_from(["do", "done", "unchanged", "waiting",
                                                                                 "check", "note"])),
                                                          draw(st.integers(1, 99999)), draw(st.integers(1, 10 ** 9)),
                                                          draw(st.integers(0, 9999)))
            has_record_line = True
        full = "".join("%sL %s %d %s\n" % (prefix.get(seq, ""), t, seq, pl) for seq, pl in enumerate(lines))
        cuts = set()
        pos = 0
        for seq, pl in enumerate(lines):
            ln = len("%sL %s %d %s\n" % (prefix.get(seq, ""), t, seq, pl))
            if draw(st.integers(0, 99)) < 30:
                # cut inside this line: 1-4 places, biased to the ends (inside the prefix, inside a short payload,
                # right before the newline)
                for _ in range(draw(st.integers(1, 4))):
                    where = draw(st.integers(0, 3))
                    if where == 0:
                        off = draw(st.integers(1, min(ln - 1, 6)))
                    elif where == 1:
                        off = ln - 1 - draw(st.integers(0, min(ln - 2, 8)))
                    else:
                        off = draw(st.integers(1, ln - 1))
                    cuts.add(pos + off)
            pos += ln
            if draw(st.integers(0, 99)) < 45:
                cuts.add(pos)
        pieces = []
        prev = 0
        for c in sorted(x for x in cuts if 0 < x < len(full)):
            pieces.append(full[prev:c])
            prev = c
        pieces.append(full[prev:])
        if not full:
            pieces = []
        dep_at = draw(st.integers(0, len(pieces)))
        # known finding D16 (redo-ifchange while a stderr line is unterminated): keep that shape to a small share of
        # the cases so that the search is not dominated by it; the others move the call to a line boundary
        if deps and 0 < dep_at <= len(pieces) and not pieces[dep_at - 1].endswith("\n") \
                and draw(st.integers(0, 99)) >= 12:
            while 0 < dep_at and not pieces[dep_at - 1].endswith("\n"):
                dep_at -= 1
            d16_moved = True
        body = []
        for c, piece in enumerate(pieces):
            if c == dep_at and deps:
                body.append(["dep", 1, deps])
            name = "err.%s.%d" % (t.replace("/", "_"), c)
            errfiles[name] = piece
            body.append(["err", name])
            mid_line = not piece.endswith("\n")
            # pauses let the log follower (which polls every 10 ms, backing off while idle) read a piece on its own
            if draw(st.integers(0, 99)) < (60 if mid_line else 15):
                body.append(["sleep", draw(st.sampled_from([1, 5, 20, 35, 60]))])
        if dep_at >= len(pieces) and deps:
            body.append(["dep", 1, deps])
        body.append(["out", "stdout"])
        dofiles[by_default.get(t, t + ".do")] = {"v": 1, "body": body}
        expect[t] = lines
    top = targets[-1]
    # make sure the top depends on something so that nesting exists
    proj = {"dirs": ["", "sub"], "sources": [], "dofiles": dofiles, "targets": targets, "watch": [],
            "errfiles": errfiles, "rule_of": by_default}
    cfg = {"log": 1, "keep_going": 0, "jobs": draw(st.sampled_from([1, 1, 2, 3, 4])),
           # in dependency order (a target only depends on lower-numbered ones): `redo X Y` with Y in X's closure
           # would legitimately build Y twice (statement-silent shape, DESIGN §5)
           "roots": sorted(set([top] + [targets[draw(st.integers(0, nt - 1))] for _ in range(draw(st.integers(0, 2)))]),
                           key=tidx)}
    # the live output in the default (pretty) format; a second command that rebuilds some of the targets with other
    # lines (the per-target log is replaced at each build start), replayed with and without --unchanged
    cfg["pretty"] = int(not has_record_line and draw(st.integers(0, 99)) < 30)
    # lock records (locked / waiting / unlocked) shown as well, live and in the replay
    cfg["debug_locks"] = int(not has_record_line and not cfg["pretty"] and draw(st.integers(0, 99)) < 20)
    # the log follower's "is it still being built?" probe delayed by 15 ms (LD_PRELOAD shim): whatever a script writes
    # last, just before it exits, then falls between the follower's final read and that probe
    cfg["probe_delay_us"] = 15000 if draw(st.integers(0, 99)) < 15 else 0
    cfg["roots2"] = None
    if not has_record_line and draw(st.integers(0, 99)) < 50:
        pick = [t for t in targets if draw(st.integers(0, 99)) < 40] or [top]
        cfg["roots2"] = sorted(set(pick), key=tidx)
        cfg["jobs2"] = draw(st.sampled_from([1, 2, 3]))
    return {"project": proj, "cfg": cfg, "ops": [], "expect": expect, "d16_excluded": d16_moved,
            "record_like_line": has_record_line}


def tidx(t):
    return int(re.search(r"t(\d+)", posixpath.basename(t)).group(1))


def target_of(case, dof):
    for t, d in (case["project"].get("rule_of") or {}).items():
        if d == dof:
            return t
    return dof[:-3]


def dofile_of(case, t):
    return (case["project"].get("rule_of") or {}).get(t, t + ".do")


PRETTY = re.compile(r"^redo +(\S+?)(?: \((resumed|done|exit -?\d+)\))?$")


def second_generation(case):
    """The stderr pieces of every script with ` g2` appended to every line (cuts stay where they were).
    -> ({piece file: text}, {target: [payload]})"""
    ef = case["project"]["errfiles"]
    new = {}
    exp2 = {}
    tag = " g2"
    for dof, spec in case["project"]["dofiles"].items():
        names = [stt[1] for stt in spec["body"] if stt[0] == "err"]
        full = "".join(ef[n] for n in names)
        off = 0
        prev_new = 0
        full2 = full.replace("\n", tag + "\n")
        for n in names:
            off += len(ef[n])
            cut = off + len(tag) * full.count("\n", 0, off)
            new[n] = full2[prev_new:cut]
            prev_new = cut
        assert prev_new == len(full2), (prev_new, len(full2))
        exp2[target_of(case, dof)] = [pl + tag for pl in case["expect"][target_of(case, dof)]]
    return new, exp2


def parse_log(text, pretty=False, loose=False):
    """-> ({target: [(seq, payload)]}, {target: rv}, problems)"""
    # A plain line belongs to the section opened by the most recent `do X` or re-opened by `resumed Y`:
    # redo-log prints `resumed Y` before the first plain line of Y that follows any nested section, and a
    # nested section's plain lines directly follow its `do` (or its own `resumed`).
    cur = None
    per = {}
    done = {}
    dos = []
    problems = []
    for raw in text.split("\n"):
        if raw == "":
            continue
        mm = META.match(raw)
        if pretty:
            mm = None
            pm = PRETTY.match(raw)
            if pm:
                name, what = pm.groups()
                if what is None:
                    cur = name
                    dos.append(name)
                elif what == "resumed":
                    if name not in dos:
                        problems.append("resumed %r which was never opened" % name)
                    cur = name
                continue
        if mm and re.match(r"L (?:sub/)?t\d+(?:\.e\d+)? \d+( |$)", mm.group(4)):
            raw = mm.group(4)      # a script's own line that has the form of a record: judged like any other line
            mm = None
        if mm:
            kind, _, _, txt = mm.groups()
            if kind == "do":
                cur = txt
                dos.append(txt)
            elif kind == "resumed":
                if txt not in dos:
                    problems.append("resumed %r which was never opened" % txt)
                cur = txt
            elif kind == "done":
                rv, _, name = txt.partition(" ")
                if name in done:
                    problems.append("two done records for %r" % name)
                done[name] = int(rv)
            continue
        if raw.startswith("L "):
            parts = raw.split(" ", 3)
            if len(parts) < 3:
                problems.append("mangled line %r" % raw[:80])
                continue
            t = parts[1]
            try:
                seq = int(parts[2])
            except ValueError:
                problems.append("mangled line %r" % raw[:80])
                continue
            pl = parts[3] if len(parts) > 3 else ""
            owner = cur
            if owner != t and not loose:
                # (with --debug-locks every record is shown twice, the second time raw with the name as the writer
                # spelled it, e.g. `../t1`: sections cannot be told apart by name there; only the per-target
                # sequences are judged)
                problems.append("line of %s seq %d printed under section %r" % (t, seq, owner))
            per.setdefault(t, []).append((seq, pl))
        else:
            problems.append("unattributable output line %r" % raw[:120])
    return per, done, dos, problems


def judge(per, done, dos, problems, expect, executed, label, no_done=()):
    out = list(problems)
    for t in executed:
        want = [(i, p.rstrip()) for i, p in enumerate(expect[t])]
        got = [(s, p.rstrip()) for (s, p) in per.get(t, [])]
        if got != want:
            # describe compactly
            gs = [s for s, _ in got]
            if gs != [s for s, _ in want]:
                out.append("%s: sequence numbers %s, expected 0..%d" % (t, gs[:40], len(want) - 1))
            else:
                bad = [s for (s, p), (_, q) in zip(got, want) if p != q]
                out.append("%s: payload differs at seq %s" % (t, bad[:10]))
        if t not in dos:
            out.append("%s: no 'do' record" % t)
        if no_done != "all" and t not in no_done and done.get(t) != 0:
            out.append("%s: done status %r, expected 0" % (t, done.get(t)))
    for t in per:
        if t not in executed:
            out.append("%s: lines shown although its script did not run" % t)
    return ["%s: %s" % (label, o) for o in out]


def closure(case, roots):
    """Targets reachable from roots through the redo-ifchange statements of the scripts."""
    seen = set()
    todo = list(roots)
    while todo:
        t = todo.pop()
        if t in seen:
            continue
        seen.add(t)
        spec = case["project"]["dofiles"].get(dofile_of(case, t))
        for stt in (spec or {}).get("body", []):
            if stt[0] == "dep":
                todo.extend(stt[2])      # (root-relative in the DSL)
    return seen


def partial_across_dep(case, executed):
    """True iff some executed script calls redo-ifchange while one of its stderr lines is still unterminated."""
    ef = case["project"]["errfiles"]
    for dof, spec in case["project"]["dofiles"].items():
        if target_of(case, dof) not in executed:
            continue
        pending = False
        for stt in spec["body"]:
            if stt[0] == "err":
                txt = ef[stt[1]]
                if txt:
                    pending = not txt.endswith("\n")
            elif stt[0] == "dep" and pending:
                return True
    return False


def max_pieces_per_line(case, executed):
    """Largest number of separate writes that one stderr line of an executed script is made of."""
    ef = case["project"]["errfiles"]
    best = 0
    for dof, spec in case["project"]["dofiles"].items():
        if target_of(case, dof) not in executed:
            continue
        cur = 0
        for stt in spec["body"]:
            if stt[0] != "err" or not ef[stt[1]]:
                continue
            txt = ef[stt[1]]
            segs = txt.split("\n")
            # first segment continues the pending line
            cur += 1
            best = max(best, cur)
            if len(segs) > 1:
                cur = 1 if segs[-1] != "" else 0
                best = max(best, cur)
    return best


def run_case(case, tier):
    out = hist.Outcome()
    disk = hist.P.Disk(hist.scratch_dir("c18"))
    try:
        disk.materialize(case["project"])
        cfg = case["cfg"]
        pretty = bool(cfg.get("pretty"))
        dl = ["--debug-locks"] if cfg.get("debug_locks") else []
        argv = ["redo", "-j%d" % cfg["jobs"], "--pretty" if pretty else "--no-pretty"] + dl + cfg["roots"]
        env1 = {"REDO_PRETTY": "1"} if pretty else {}
        if cfg.get("probe_delay_us"):
            from .. import sut
            ctr = os.path.join(disk.ctl, "ctr")
            with open(ctr, "wb") as f:
                f.write(b"\0" * 4096)
            env1.update({"LD_PRELOAD": os.path.join(engine.VERIF, "shim", "verifshim.so"),
                         "RV_SHIM_EXE": os.path.realpath(os.path.join(sut.BIN_DIR, "redo")), "RV_SHIM_CTR": ctr,
                         "RV_SHIM_ROOT": disk.root, "RV_SHIM_PROBE_DELAY_US": str(cfg["probe_delay_us"])})
            out.events["c18:follower-lock-probe-delayed(15 ms)"] += 1
        res = runner.run_cmd(disk, argv, cwd="", env_extra=env1)
        out.commands += 1
        ex, calls, args, exits = hist.parse_trace(disk.take_trace())
        out.scripts += len(ex)
        if res.timed_out:
            raise runner.Inconclusive("timeout")
        text = res.err.decode("utf-8", "replace")
        ctx = {"cmd": {"argv": argv, "rc": res.rc, "err": text[-3000:]}, "executed": ex}
        if case.get("record_like_line") and (res.rc != 0 or "panicked at" in text):
            # a script line in record form that is not even a well-formed record of its kind (`done` without a
            # status) makes the viewer give up: the same in-band limitation as D15, this property's subject
            out.events["c18:whole-line-has-the-form-of-a-record"] += 1
            out.violation = {"property": "C18", "clause": "log-lines", "step": 0, "detail": ctx,
                             "sig": {"symptom": "log-lines", "partial_across_dep": False, "record_like_line": True}}
            return out
        if res.rc == 101 or "panicked at" in text:
            out.violation = {"property": "C09", "clause": "panic", "detail": ctx,
                             "sig": {"symptom": hist.panic_sig(text)}, "step": 0}
            return out
        if res.rc != 0:
            out.violation = {"property": "C09", "clause": "spurious-failure", "detail": ctx,
                             "sig": {"symptom": "exit %d" % res.rc}, "step": 0}
            return out
        expect = case["expect"]
        probs = judge(*parse_log(text, pretty, loose=bool(dl)), expect, sorted(set(ex)), "live",
                      no_done="all" if (pretty or dl) else ())
        if pretty:
            out.events["c18:live-output-in-pretty-format"] += 1
        # replay, per root
        rtext = ""
        seen_exec = set(ex)
        q = runner.run_cmd(disk, ["redo-log", "-r", "--no-pretty"] + dl + cfg["roots"], cwd="", env_extra={})
        if dl:
            out.events["c18:lock-records-shown(--debug-locks)"] += 1
        out.commands += 1
        rtext = q.out.decode("utf-8", "replace")
        if q.rc != 0:
            probs.append("replay: redo-log exited %d: %s" % (q.rc, q.err.decode("utf-8", "replace")[-300:]))
        else:
            # a target's `done` record lives in its parent's log; the replay roots have no parent log
            probs += judge(*parse_log(rtext, loose=bool(dl)), expect, sorted(seen_exec), "replay",
                           no_done="all" if dl else cfg["roots"])
        nlines = sum(len(expect[t]) for t in set(ex))
        if cfg["jobs"] >= 2 and len(set(ex)) >= 3:
            out.events["c18:parallel>=3-targets"] += 1
        if any(k.endswith(".end") or (v and not v.endswith("\n")) for k, v in case["project"]["errfiles"].items()):
            out.events["c18:partial-line"] += 1
            out.nontrivial = True
        if max_pieces_per_line(case, set(ex)) >= 3:
            out.events["c18:line-written-in>=3-pieces"] += 1
        if nlines >= 2 and len(set(ex)) >= 2:
            out.nontrivial = True
        if any(len(p) > 4000 for t in set(ex) for p in expect[t]):
            out.events["c18:line>4KiB"] += 1
        out.events["c18:lines-checked"] += nlines
        if case.get("d16_excluded"):
            out.events["c18:excluded-by-construction(D16 shape moved to a line boundary)"] += 1
        if case.get("record_like_line"):
            out.events["c18:whole-line-has-the-form-of-a-record"] += 1
        if any(t in (case["project"].get("rule_of") or {}) for t in ex):
            out.events["c18:script-cwd-differs-from-target-directory(default rule in the parent)"] += 1
            if "@@REDO:waiting:" in text or any(
                    b"@@REDO:waiting:" in open(os.path.join(disk.root, ".redo", n), "rb").read()
                    for n in os.listdir(os.path.join(disk.root, ".redo")) if n.startswith("log.")):
                out.events["c18:lock-wait-recorded-by-a-script-whose-cwd-is-not-its-target-directory(maybe)"] += 1
        if any("/" in t for t in ex) and any("/" not in t for t in ex):
            out.events["c18:targets-in-two-directories"] += 1
        pad = partial_across_dep(case, set(ex))
        if pad:
            out.events["c18:partial-line-pending-across-redo-ifchange"] += 1
        rtext2 = ""
        if not probs and cfg.get("roots2") and not pad and not case.get("record_like_line"):
            # ---- second command: some targets are built again and write other lines ----
            new, expect2 = second_generation(case)
            for name, txt in new.items():
                with open(os.path.join(disk.ctl, name), "wb") as f:
                    f.write(txt.encode("utf-8"))
            argv2 = ["redo", "-j%d" % cfg.get("jobs2", 1), "--no-pretty"] + cfg["roots2"]
            res2 = runner.run_cmd(disk, argv2, cwd="", env_extra={})
            out.commands += 1
            ex2, _, _, _ = hist.parse_trace(disk.take_trace())
            out.scripts += len(ex2)
            if res2.timed_out:
                raise runner.Inconclusive("timeout")
            text2 = res2.err.decode("utf-8", "replace")
            ctx["cmd2"] = {"argv": argv2, "rc": res2.rc, "err": text2[-3000:]}
            ctx["executed2"] = ex2
            if res2.rc == 101 or "panicked at" in text2:
                out.violation = {"property": "C09", "clause": "panic", "detail": ctx,
                                 "sig": {"symptom": hist.panic_sig(text2)}, "step": 1}
                return out
            if res2.rc != 0:
                out.violation = {"property": "C09", "clause": "spurious-failure", "detail": ctx,
                                 "sig": {"symptom": "exit %d" % res2.rc}, "step": 1}
                return out
            if not partial_across_dep(case, set(ex2)):
                out.events["c18:second-command-rebuilds-with-other-lines"] += 1
                out.events["c18:lines-checked"] += sum(len(expect2[t]) for t in set(ex2))
                probs += judge(*parse_log(text2), expect2, sorted(set(ex2)), "live2")
                q2 = runner.run_cmd(disk, ["redo-log", "-r", "--no-pretty"] + cfg["roots2"], cwd="", env_extra={})
                out.commands += 1
                rtext2 = q2.out.decode("utf-8", "replace")
                if q2.rc != 0:
                    probs.append("replay2: redo-log exited %d: %s" % (q2.rc, q2.err.decode("utf-8", "replace")[-300:]))
                else:
                    probs += judge(*parse_log(rtext2), expect2, sorted(set(ex2)), "replay2", no_done=cfg["roots2"])
                # --unchanged: every target the second command needed is shown once, with the lines of its LAST build
                known = set(ex) | set(ex2)
                clos = closure(case, cfg["roots2"])
                if clos <= known:
                    q3 = runner.run_cmd(disk, ["redo-log", "-r", "-u", "--no-pretty"] + cfg["roots2"], cwd="",
                                        env_extra={})
                    out.commands += 1
                    utext = q3.out.decode("utf-8", "replace")
                    if q3.rc != 0:
                        probs.append("replay-u: redo-log exited %d: %s" % (
                            q3.rc, q3.err.decode("utf-8", "replace")[-300:]))
                    else:
                        mixed = {t: (expect2[t] if t in ex2 else expect[t]) for t in clos}
                        up = judge(*parse_log(utext), mixed, sorted(clos), "replay-u", no_done="all")
                        if up:
                            ctx["replay_u"] = utext[-2000:]
                        probs += up
                        if clos - set(ex2):
                            out.events["c18:unchanged-targets-shown-by-replay-u"] += 1
        if probs:
            out.violation = {"property": "C18", "clause": "log-lines", "step": 0,
                             "detail": dict(ctx, problems=probs[:20], replay=rtext[-2000:], replay2=rtext2[-2000:]),
                             "sig": {"symptom": "log-lines", "partial_across_dep": pad,
                                     "record_like_line": bool(case.get("record_like_line"))}}
        return out
    finally:
        import shutil
        shutil.rmtree(disk.base, ignore_errors=True)


class Spec:
    id = "C18"
    level = "exploration"
    rule = ("End-to-end half: graphs of 2-7 targets whose scripts write numbered stderr lines `L <target> <seq> "
            "<payload>` (payloads: empty, unicode, trailing whitespace, 4095-70000 bytes, text resembling redo's own "
            "prefixes, shell metacharacters) in 1-3 chunks around their redo-ifchange call, 25% of chunks ending in a "
            "partial line completed by the next chunk; built with `redo -j1..4 --no-pretty` and log capture on. The "
            "live output and a later `redo-log -r --no-pretty` are parsed with a do/resumed/done stack. Oracle: for "
            "every executed target the sequence numbers are exactly 0..n-1 in order, each once, under that target's "
            "section, payloads equal modulo trailing whitespace; every executed target has a `do` and a `done 0`; no "
            "unattributable line. Non-trivial = >= 2 targets with >= 2 lines, or a partial line. In-process half: "
            "proptest (kind, pid, text) -> real formatter (LogBuilder raw mode into a buffer, logs::meta) -> "
            "Meta::parse round trip, fixed point parse(format(parse(s))), done_text.")
    assumptions = ["script output is valid UTF-8 without NUL", "lines that themselves parse as @@REDO records are "
                   "generated by a separate sub-generator (in-band protocol, see known findings)"]

    def cases(self, tier):
        return 1600 if tier == "quick" else 12000

    def strategy(self, tier):
        return cases(tier)

    def run_case(self, case, tier):
        return run_case(case, tier)


SPEC = Spec()


def run_check(tier, seed):
    t0 = time.time()
    ok, msg = inproc.build()
    inp = None
    if ok:
        inp = inproc.run("c18", 20000 if tier == "quick" else 2000000, seed)
    code, ev = engine.run_property("rv.props.c18", tier, seed)
    cov = ev["coverage"]
    if inp is not None:
        cov["inproc"] = {k: inp[k] for k in ("evaluations", "nontrivial", "classes", "samples")}
        cov["evaluations"] += inp["evaluations"]
        cov["distinct_nontrivial"] += inp["nontrivial"]
        for f in inp["failures"]:
            path = engine.write_replay("C18", {"inproc": "c18", "mode": "c18", "n": 20000 if tier == "quick" else 2000000,
                                               "seed": seed, "failure": f}, f, prefix="fail-inproc")
            print("VIOLATION property=C18 replay=%s" % path)
            print("  " + f["detail"][:600])
            code = 1
            ev["violations"] += 1
    else:
        cov["inproc"] = {"disabled": "in-process crate does not build against /repo: " + msg[-400:]}
    from .. import fuzz
    fv = []
    fcode = fuzz.campaign("C18", {"meta": (400000, 8000000, 300)}, tier, seed, cov, fv)
    ev["violations"] += len(fv)
    code = max(code, fcode) if code != 1 else 1
    ev["wall_s"] = round(time.time() - t0, 2)
    return code, ev
