"""C11 - redo never overwrites or deletes files it did not produce (engine H + ownership model)."""
from .. import gen, hist


class Runner(hist.HistoryRunner):
    own_prop = "C11"
    claims = ('mwrite-gen', 'mwrite-user', 'mwrite-new', 'mreplace-gen', 'mreplace-user', 'mreplace-new', 'mremove', 'usermod')
    pass


class Spec:
    id = "C11"
    level = "exploration"
    rule = ("Histories that alternate builds with manual creation, in-place editing, replacement (new inode) and removal "
            "of files whose names are matched by specific rules, default.<ext>.do and default.do in parent "
            "directories; commands `redo T`, `redo-ifchange T`, `redo-ifchange parent-of-T` plus redo-targets / "
            "redo-sources queries. The model tracks who produced the file currently at each path. Oracle after every "
            "command: every user-owned file (sources, .do files, hand-made or hand-edited targets) has unchanged "
            "bytes, inode and mtime; a command asked to build a hand-edited generated target prints the override "
            "warning naming it; after the user removes the file the next redo-ifchange executes the rule again "
            "(execution multiset equals the model's); redo-targets/redo-sources agree with the model's roles. "
            "Non-trivial = a build command names a target that is user-owned at that moment; distinct = SHA-1 of the "
            "case JSON.")
    assumptions = ["manual edits always change mtime (redo cannot see anything else)", "-j1, one invocation at a time"]
    checks = {"userfiles", "execset", "content", "query"}

    def accepts(self, case):
        return "dblock" not in case

    def cases(self, tier):
        return 1600 if tier == "quick" else 16000

    def strategy(self, tier):
        o = {"p_failflag": 10, "p_csum": 20, "p_default": 50, "max_cmd_targets": 2, "p_focus": 60, "p_usermod": 35,
             "weights": {"cmd": 40, "redo": 15, "usermodflag": 7, "msymlink": 6, "mwrite": 14, "mreplace": 8, "mremove": 12, "edit": 8, "query": 8,
                         "failflag": 3, "setdo": 3, "adddo": 2, "rmdo": 1, "rmtarget": 4, "mkpath": 1, "rmpath": 1,
                         "ext": 1, "touch": 2}}
        if tier == "thorough":
            o.update(max_targets=12, max_ops=28)
        return gen.histories(o)

    def run_case(self, case, tier):
        r = Runner(case, self.checks, tag="c11")
        r.execset_prop = "C11"        # a rebuild that must happen (file removed by the user) but does not
        r.execset_extra_prop = "C02"  # extra executions of other targets are C02's subject
        return r.run()


SPEC = Spec()


def spec_for(case):
    from . import c11lock
    return c11lock.SPEC if "dblock" in case else SPEC


def run_check(tier, seed):
    from .. import engine
    code, ev = engine.run_property("rv.props.c11", tier, seed)
    code2, ev2 = engine.run_property("rv.props.c11lock", tier, seed)
    ev = engine.merge_evidence(ev, ev2, "serial histories", "hand-made file while redo waits for the database")
    return (1 if 1 in (code, code2) else max(code, code2)), ev
