"""C03 - checksum cut-off stops and forwards change exactly (engine H + model R)."""
from .. import gen, hist


class Spec:
    id = "C03"
    level = "exploration"
    rule = ("Projects where ~60% of the rules call redo-stamp (half of those with a lossy projection, so that an input "
            "edit often leaves the checksum unchanged), histories of edits and commands. Oracle per command and per "
            "checksummed target c that executed: (a) if c's checksum is unchanged, no dependent of c ran unless the "
            "reference model gives it another reason; (b) if it changed and the command exits 0, every dependent of c "
            "inside the requested closure ran in this same command (and C01's content oracle holds). Non-trivial = a "
            "checksummed target executed in a command whose requested target is a strict ancestor; classes "
            "{changed,unchanged} x {depth 1, >=2} x {in-band, out-of-band} are counted and must all be non-empty. "
            "Distinct = SHA-1 of the case JSON.")
    assumptions = ["-j1, one invocation at a time", "redo-stamp input == target content",
                   "nested checksummed chains over-build (known finding D12) and are matched on that shape only"]
    checks = {"csum", "content"}

    def cases(self, tier):
        return 1600 if tier == "quick" else 16000

    def strategy(self, tier):
        o = {"p_failflag": 0, "p_csum": 60, "p_always": 8, "p_ifc": 5, "min_targets": 3,
             "weights": {"cmd": 45, "edit": 30, "failflag": 0, "setdo": 5, "adddo": 1, "rmdo": 1, "rmtarget": 8,
                         "redo": 8, "mkpath": 1, "rmpath": 1, "ext": 2, "touch": 3}}
        if tier == "thorough":
            o.update(max_targets=12, max_ops=28)
        return gen.histories(o)

    def run_case(self, case, tier):
        return hist.HistoryRunner(case, self.checks, tag="c03").run()

    def health(self, cov):
        need = ["c03:%s/depth%s/%s" % (a, b, c) for a in ("changed", "unchanged") for b in ("1", ">=2")
                for c in ("oob", "inband")]
        missing = [k for k in need if not cov["classes"].get(k)]
        return ("classes never generated: %s" % missing) if missing else None


SPEC = Spec()
