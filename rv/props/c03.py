"""C03 - checksum cut-off stops and forwards change exactly (engine H + model R)."""
from .. import gen, hist


class Spec:
    id = "C03"
    level = "exploration"
    rule = ("Projects where ~60% of the rules call redo-stamp (half of those with a lossy projection, so that an input "
            "edit often leaves the checksum unchanged), histories of edits and commands. Oracle per command and per "
            "checksummed target c that executed: (a) if c's checksum is unchanged, no dependent of c ran unless the "
            "reference model gives it another reason; (b) if it changed and the command exits 0, every dependent of c "
            "inside the requested closure ran in this same command (and C01's content oracle holds). Non-trivial = a "
            "checksummed target executed in a command whose requested target is a strict ancestor; classes "
            "{changed,unchanged} x {depth 1, >=2} x {in-band, out-of-band} are counted and must all be non-empty. "
            "Distinct = SHA-1 of the case JSON.")
    assumptions = ["-j1, one invocation at a time", "redo-stamp input == target content",
                   "nested checksummed chains over-build (known finding D12) and are matched on that shape only"]
    checks = {"csum", "content"}

    def accepts(self, case):
        return "ops" in case

    def cases(self, tier):
        return 1600 if tier == "quick" else 16000

    def strategy(self, tier):
        o = {"p_failflag": 0, "p_csum": 60, "p_always": 8, "p_ifc": 5, "min_targets": 3, "p_stampif": 30,
             "weights": {"cmd": 45, "edit": 30, "stampflag": 8, "failflag": 0, "setdo": 5, "adddo": 1, "rmdo": 1, "rmtarget": 8, "crash": 6,
                         "redo": 8, "mkpath": 1, "rmpath": 1, "ext": 2, "touch": 3}}
        # second family: tiny projects, small operation alphabet (command / edit-or-revert one of two sources /
        # toggle "does this rule call redo-stamp") -- long enough histories over few objects reach multi-step shapes
        # such as stamped(D) -> rebuilt unstamped with other content -> stamped(D) again
        t = {"min_targets": 2, "max_targets": 3, "max_sources": 2, "max_dirs": 0, "p_csum": 75, "p_stampif": 80,
             "p_always": 0, "p_ifc": 0, "p_failflag": 0, "p_default": 0, "min_ops": 12, "max_ops": 22,
             "max_cmd_targets": 1, "p_focus": 70, "edit_variants": 2,
             "weights": {"cmd": 50, "edit": 30, "stampflag": 15, "touch": 0, "rmtarget": 3, "setdo": 0, "adddo": 0,
                         "rmdo": 0, "mkpath": 0, "rmpath": 0, "ext": 0, "failflag": 0, "redo": 2}}
        if tier == "thorough":
            o.update(max_targets=12, max_ops=28)
            t.update(max_ops=30)
        from hypothesis import strategies as st
        # third family: chains with two or more checksummed levels (nested out-of-band settles)
        return st.one_of(gen.histories(o), gen.histories(t), gen.histories(t), gen.histories(t), gen.nested_chains())

    def run_case(self, case, tier):
        return hist.HistoryRunner(case, self.checks, tag="c03").run()

    def health(self, cov):
        need = ["c03:%s/depth%s/%s" % (a, b, c) for a in ("changed", "unchanged") for b in ("1", ">=2")
                for c in ("oob", "inband")]
        missing = [k for k in need if not cov["classes"].get(k)]
        return ("classes never generated: %s" % missing) if missing else None


SPEC = Spec()


def spec_for(case):
    from . import c03s
    return c03s.SPEC if "invs" in case else SPEC


def run_check(tier, seed):
    from .. import engine
    code_h, ev_h = engine.run_property("rv.props.c03", tier, seed)
    code_s, ev_s = engine.run_property("rv.props.c03s", tier, seed)
    ev = engine.merge_evidence(ev_h, ev_s, "serial histories", "parallel scheduled scenarios")
    return (1 if 1 in (code_h, code_s) else max(code_h, code_s)), ev
