"""C08 - job tokens are conserved and -j is respected (engine S + harness-as-parent-jobserver)."""
import re

from hypothesis import strategies as st

from .. import hist, runner, sched, sgen
from .c09 import BAD

TOKERR = re.compile(r"on exit: expected (\d+) tokens; found (\d+)-(\d+)")


@st.composite
def lockwait_cases(draw, tier):
    """Directed family: another invocation (own jobserver, started first) holds 2-3 leaves at their gates; the
    measured invocation runs under the harness' jobserver with 0-1 spare tokens and log capture, and its nested
    redo-ifchange has to wait for those locks one after the other, giving its token away each time -- while the
    harness (the parent make) steals and returns tokens.  This is where cheat tokens and their repayment happen."""
    n = draw(st.integers(2, 3))
    leaves = ["l%d" % i for i in range(n)]
    dofiles = {}
    for t in leaves:
        dofiles[t + ".do"] = {"v": 1, "body": [["dep", 1, ["s0"]], ["work", 1], ["out", "stdout"]]}
    order = sgen._subset(draw, leaves, n, n)
    body = []
    revisit = draw(st.integers(0, 1)) == 1
    if revisit:
        # the script asks for some leaves, pauses at a gate, then asks for all of them again: the other invocation
        # (a forced `redo` of the leaves) can start in between, and the log viewer has already visited those leaves
        # once (it follows a target's log only once per session, which is when a waiting job may cheat)
        body.append(["dep", 1, sgen._subset(draw, leaves, 1, n)])
        body.append(["work", 0])
        body.append(["dep", 1, order])
    elif draw(st.integers(0, 1)):
        body.append(["dep", 1, order])
    else:
        body.append(["dep", 1, order[:1]])
        body.append(["dep", 1, order[1:]])
    body.append(["out", "stdout"])
    dofiles["top0.do"] = {"v": 1, "body": body}
    extra = []
    if draw(st.integers(0, 1)):
        dofiles["top1.do"] = {"v": 1, "body": [["dep", 1, ["top0"]], ["out", "stdout"]]}
        extra = ["top1"]
    proj = {"dirs": [""], "sources": ["s0"], "dofiles": dofiles, "targets": leaves + ["top0"] + extra, "watch": [],
            "layers": {"leaves": leaves, "mids": [], "tops": ["top0"] + extra}}
    contender = {"argv": ["redo", "-j%d" % draw(st.integers(n, n + 1))] + leaves, "cwd": "", "env": {"REDO_LOG": "0"},
                 "jobserver": None, "limit": n}
    js = {"tokens": draw(st.integers(0, 1)), "held": draw(st.integers(0, 1)), "high": draw(st.integers(0, 2)) > 0}
    kind = draw(st.sampled_from(["redo", "redo-ifchange"]))
    measured = {"argv": [kind] + (extra or ["top0"]), "cwd": "", "env": {}, "jobserver": js, "limit": None}
    invs, midx, start_first = [contender, measured], 1, True
    if revisit:
        invs, midx, start_first = [measured, contender], 0, False
    return {"project": proj, "invs": invs, "measured": midx, "schedule": draw(sgen.schedule(24)),
            "failing": [], "cyclic": False, "family": "lockwait", "revisit": revisit,
            "sopts": {"seed": draw(st.integers(1, 2 ** 31 - 1)), "coincide": draw(st.integers(0, 3)) == 0,
                      "token_games": True, "patient": True, "start_first": start_first, "smart_tokens": True}}


@st.composite
def cases(draw, tier):
    if draw(st.integers(0, 99)) < 35:
        return draw(lockwait_cases(tier))
    proj = draw(sgen.graphs({"max_leaf": 6 if tier == "quick" else 9, "max_mid": 4 if tier == "quick" else 7,
                             "p_gate": 80, "p_csum": 10, "p_always": 5, "p_fail": 12}))
    L = proj["layers"]
    allt = L["tops"] + L["mids"] + L["leaves"]
    cyclic = False
    if draw(st.integers(0, 99)) < 7:
        # error-exit variant: a mid that (after a gated leaf, in the same redo-ifchange) asks for a top which itself
        # depends on that mid -> the nested redo-ifchange meets a cyclic dependency while its first job still runs
        for top in L["tops"]:
            deps = [q for stt in proj["dofiles"][top + ".do"]["body"] if stt[0] == "dep" for q in stt[2]]
            mids = [q for q in deps if q in L["mids"]]
            if mids:
                mid = mids[0]
                body = proj["dofiles"][mid + ".do"]["body"]
                for stt in body:
                    if stt[0] == "dep":
                        gated = [l for l in L["leaves"] if any(x[0] == "work" for x in proj["dofiles"][l + ".do"]["body"])]
                        lead = gated[:1] or L["leaves"][:1]
                        stt[2] = lead + [q for q in stt[2] if q not in lead] + [top]
                        cyclic = True
                        break
                if cyclic:
                    break
    inherited = draw(st.integers(0, 1)) == 1
    log_on = draw(st.integers(0, 1)) == 1
    env = {} if log_on else {"REDO_LOG": "0"}
    if draw(st.integers(0, 3)) == 0:
        env["REDO_KEEP_GOING"] = "1"
    ts = sgen._subset(draw, allt, 1, 4)
    err_variant = draw(st.integers(0, 99))
    if err_variant < 8:
        ts = ts + [""]          # invalid (empty) target: error exit
    invs = []
    if inherited:
        js = {"tokens": draw(st.integers(0, 4)), "held": draw(st.integers(0, 2)), "high": draw(st.integers(0, 2)) > 0}
        kind = draw(st.sampled_from(["redo-ifchange", "redo"]))
        invs.append({"argv": [kind] + ts, "cwd": "", "env": env, "jobserver": js, "limit": None})
    else:
        n = draw(st.integers(1, 8))
        argv = ["redo", "-j%d" % n] + (["--shuffle"] if draw(st.integers(0, 3)) == 0 else []) + ts
        invs.append({"argv": argv, "cwd": "", "env": env, "jobserver": None, "limit": n})
    # an optional second invocation with its own jobserver contending for the same targets (lock-wait paths)
    if draw(st.integers(0, 99)) < 35:
        ts2 = sgen._subset(draw, allt, 1, 3)
        n2 = draw(st.integers(1, 4))
        env2 = {} if draw(st.integers(0, 1)) else {"REDO_LOG": "0"}
        invs.append({"argv": ["redo", "-j%d" % n2] + ts2, "cwd": "", "env": env2, "jobserver": None, "limit": n2})
    measured = 0
    if len(invs) == 2 and not cyclic and draw(st.integers(0, 1)):
        # the contender starts FIRST and holds the locks (its scripts sit at their gates); the measured invocation
        # then has to wait for one lock after the other, giving its token away meanwhile
        invs = [invs[1], invs[0]]
        measured = 1
    fails = sorted({s[1] for spec in proj["dofiles"].values() for s in spec["body"] if s[0] == "failflag"})
    failing = [f for f in fails if draw(st.integers(0, 2)) == 0]
    if cyclic:
        # make sure the cycle is reached: request the top that closes it
        for inv in invs[:1]:
            tops_in = [t for t in L["tops"] if t not in inv["argv"]]
            inv["argv"] += L["tops"][:1] if L["tops"][0] not in inv["argv"] else []
    return {"project": proj, "invs": invs, "measured": measured, "schedule": draw(sgen.schedule(32)), "failing": failing,
            "cyclic": cyclic,
            "sopts": {"seed": draw(st.integers(0, 2 ** 31 - 1)), "coincide": draw(st.integers(0, 2)) > 0, "token_games": inherited and draw(st.integers(0, 1)) == 1,
                      "patient": draw(st.integers(0, 2)) == 0, "start_first": draw(st.integers(0, 1)) == 1}}


class Runner(sched.SchedRunner):
    def __init__(self, case, tag):
        sched.SchedRunner.__init__(self, case, tag)
        for f in case.get("failing", []):
            self.disk.set_fail(f, True)
        self.pipe_excess = None
        self.max_inwork_by_owner_tree = 0

    def quiescent(self, timeout=None):
        res = sched.SchedRunner.quiescent(self, timeout)
        if self.jp:
            # the pipe may never hold more than what the parent ever made available
            spec = self.js_spec
            # + 1: the top-level's own (implicit) token, which it may park in the pipe while it waits for a lock
            limit = spec["tokens"] + spec.get("held", 0) - self.jp.held + 1
            avail = self.jp.available() - self.jp.cheats()
            if avail > limit and self.pipe_excess is None:
                self.pipe_excess = (avail, limit, list(self.token_log))
        return res


def run_case(case, tier):
    out = hist.Outcome()
    r = Runner(case, tag="c08")
    try:
        r.run()
        out.commands = len(r.invs)
        out.scripts = sum(r.tl.starts.values())
        if r.hang:
            out.violation = {"property": "C09", "clause": "hang", "step": 0, "detail": {"proof": r.hang},
                             "sig": {"symptom": "hang"}}
            return out
        if getattr(r, "deadline_hit", False) or any(i.rc is None for i in r.invs):
            raise runner.Inconclusive("deadline")
        texts = [r.inv_text(i) for i in r.invs]
        for inv, text in zip(r.invs, texts):
            mb = BAD.search(text)
            if inv.rc == 101 or (mb and ("panicked" in mb.group(0) or "assertion" in mb.group(0))):
                out.violation = {"property": "C09", "clause": "panic", "step": 0,
                                 "detail": {"argv": inv.spec["argv"], "text": text[-1500:]},
                                 "sig": {"symptom": hist.panic_sig(text)}}
                return out
        inv0 = r.invs[case.get("measured", 0)]
        if case.get("measured"):
            out.events["c08:contender-started-first"] += 1
        if case.get("family") == "lockwait":
            out.events["c08:lock-wait-family"] += 1
            if case.get("revisit"):
                out.events["c08:lock-wait-family/leaves-requested-twice-around-a-gate"] += 1
            if r.jp and r.jp.cheats() > 0:
                out.events["c08:cheat-byte-seen-in-cheat-pipe"] += 1
            if any(a == "steal" and k > 0 for a, k in r.token_log):
                out.events["c08:token-stolen-while-waiting"] += 1
        log_on = "REDO_LOG" not in inv0.spec["env"]
        failing = bool(case.get("failing")) or "" in inv0.spec["argv"] or bool(case.get("cyclic"))
        if case.get("cyclic") and any("cyclic" in t or "208" in t for t in texts):
            out.events["c08:error-exit-with-jobs-running(cycle)"] += 1
        ev = out.events
        ev["c08:" + ("inherited" if r.jp else "own") + "-jobserver"] += 1
        if failing:
            ev["c08:failure-or-error-exit"] += 1
        if r.coincidences:
            ev["c08:coincidence-fired"] += 1
        if len(r.invs) > 1:
            ev["c08:second-invocation-contending"] += 1
        waited = any(re.search(r"locked|waiting", t) for t in texts)
        ctx = {"invs": [i.spec["argv"] for i in r.invs], "rcs": [i.rc for i in r.invs], "envs": [i.spec["env"] for i in r.invs],
               "decisions": r.tl.decisions[-40:], "token_log": r.token_log[-20:], "max_inwork": r.tl.max_inwork,
               "texts": [t[-1200:] for t in texts]}
        # a redo process may not go away while a script it started is still at work (its tokens would be handed on
        # although the job still runs) -- except on the internal-error exits (cycle, invalid target), where that is
        # the documented behaviour and force_return_tokens accounts for it
        if r.orphans and not case.get("cyclic") and "" not in inv0.spec["argv"]:
            out.violation = {"property": "C08", "clause": "redo-exited-while-its-job-still-runs", "step": 0,
                             "detail": dict(ctx, orphans=r.orphans[:5]),
                             "sig": {"symptom": "orphaned-job", "failing": failing}}
            return out
        # (2)/(4) own jobserver: never a token-count error, on success, failure and error exits
        for inv, text in zip(r.invs, texts):
            mt = TOKERR.search(text)
            if mt:
                out.violation = {"property": "C08", "clause": "token-count-on-exit", "step": 0,
                                 "detail": dict(ctx, which=inv.spec["argv"]),
                                 "sig": {"symptom": "on-exit-count", "expected": int(mt.group(1)),
                                         "found": int(mt.group(2)) - int(mt.group(3)) - int(mt.group(1))}}
                return out
        # (1) -j respected (single invocation only: scripts of two invocations are indistinguishable in max_inwork)
        if len(r.invs) == 1:
            if r.jp:
                limit = 1 + r.js_spec["tokens"] + r.js_spec.get("held", 0)
            else:
                limit = inv0.spec["limit"]
            allowed = limit + (1 if log_on else 0)
            if limit >= 2 or r.jp:
                if r.tl.max_inwork >= 2:
                    out.nontrivial = True
            if r.tl.max_inwork > limit:
                ev["c08:cheat-observed(limit+1)"] += 1
            if r.tl.max_inwork > allowed:
                out.violation = {"property": "C08", "clause": "too-many-jobs", "step": 0,
                                 "detail": dict(ctx, limit=limit, allowed=allowed),
                                 "sig": {"symptom": "over-limit", "log": log_on}}
                return out
        elif waited:
            out.nontrivial = True
        # (3) inherited jobserver: everything taken has been returned, nothing was created
        if r.jp:
            want = r.jp.expected_total(r.js_spec)
            have = r.jp.available() - r.jp.cheats()
            if r.pipe_excess:
                out.violation = {"property": "C08", "clause": "tokens-created-while-running", "step": 0,
                                 "detail": dict(ctx, excess=r.pipe_excess), "sig": {"symptom": "pipe-excess"}}
                return out
            if have != want:
                out.violation = {"property": "C08", "clause": "tokens-not-conserved", "step": 0,
                                 "detail": dict(ctx, have=have, want=want, pipe=r.jp.available(), cheats=r.jp.cheats(),
                                                held=r.jp.held, spec=r.js_spec),
                                 "sig": {"symptom": "inherited-count", "delta": have - want, "failing": failing}}
                return out
        return out
    finally:
        r.close()


class Spec:
    id = "C08"
    level = "exploration"
    rule = ("Fan-shaped layered graphs with 80% gated scripts (a gated script counts as 'doing work'), nested "
            "redo-ifchange, diamonds (lock-wait / release_mine paths), failing scripts (12%), keep-going, an invalid "
            "empty target (error exit); (a) own jobserver redo -j1..8 [--shuffle], optionally a second contending "
            "invocation; (b) inherited jobserver: the harness is the parent make with K=0..4 tokens in the pipe and "
            "H=0..2 it may give/steal at decision points, token pipe at low or high fd numbers; log capture on/off; "
            "coincidence schedules. Oracles: scripts simultaneously in a work section <= limit (+1 only with log "
            "capture); no 'on exit: expected N tokens' from any top-level; inherited: FIONREAD(token pipe) - "
            "FIONREAD(cheat pipe) never exceeds, and at the end equals, what the harness made available. "
            "Non-trivial = effective limit >= 2 and >= 2 scripts were in a work section at once, or a lock wait "
            "happened with two invocations.")
    assumptions = ["cheat decisions depend on redo's 10 ms-1 s back-off timers, which the harness does not own"]

    def cases(self, tier):
        return 800 if tier == "quick" else 9600

    def strategy(self, tier):
        return cases(tier)

    def run_case(self, case, tier):
        return run_case(case, tier)


SPEC = Spec()
