"""C03, parallel tier (engine S): a checksummed target whose rebuild leaves the checksum unchanged, held by the harness
BETWEEN its redo-stamp call and the end of its script, while a sibling job checks (or builds) its dependents.  Reuses
C07's scenario runner (serial/parallel differential under a harness-owned schedule): an extra execution of a
dependent is C03's "not stopped"; a missing one (when the checksum did change) is "not forwarded"."""
from hypothesis import strategies as st

from .. import sgen
from . import c07


@st.composite
def cases(draw, tier):
    lossy = draw(st.integers(0, 99)) < 70          # 70%: the edit does not reach C's output -> checksum unchanged
    dof = {}
    cbody = [["dep", 0 if lossy else 1, ["s0"]]]
    if draw(st.integers(0, 2)) == 0:
        cbody.append(["always"])
    cbody += [["work", 1], ["out", draw(st.sampled_from(["stdout", "file"]))], ["stamp"], ["work", 4]]
    dof["c.do"] = {"v": 1, "body": cbody}
    chain = ["c"]
    depth = draw(st.integers(1, 3))
    for i in range(depth):
        t = "p%d" % i
        deps = [chain[-1]] + (["c"] if i > 0 and draw(st.integers(0, 2)) == 0 else [])
        body = []
        if draw(st.integers(0, 1)):
            body.append(["work", 0])
        body += [["dep", 1, deps], ["out", "stdout"]]
        if i < depth - 1 and draw(st.integers(0, 3)) == 0:
            body.append(["stamp"])
        dof[t + ".do"] = {"v": 1, "body": body}
        chain.append(t)
    extra = []
    if draw(st.integers(0, 1)):
        dof["x.do"] = {"v": 1, "body": [["dep", 1, ["s0"]], ["work", 1], ["out", "stdout"]]}
        extra = ["x"]
    # the top of the chain has its own reason to run (it reads the edited source itself) and pauses at a gate before
    # it asks for the rest of the chain: its script's redo-ifchange then CHECKS the dependents of c at a moment the
    # harness chooses -- e.g. while c sits between its redo-stamp call and its exit
    if draw(st.integers(0, 99)) < 75:
        w = "w"
        dof["w.do"] = {"v": 1, "body": [["dep", 1, ["s0"]], ["work", 0], ["dep", 1, [chain[-1]]], ["out", "stdout"]]}
        chain.append(w)
    top = chain[-1]
    proj = {"dirs": [""], "sources": ["s0"], "dofiles": dof, "targets": chain + extra, "watch": [],
            "layers": {"leaves": ["c"] + extra, "mids": chain[1:-1], "tops": [top]}}
    kind = draw(st.sampled_from(["ifchange", "ifchange", "redo"]))
    # the checksummed target is named on the command line next to (before or after) the top of the chain
    ts = [top, "c"] if draw(st.integers(0, 1)) else ["c", top]
    ts += extra if draw(st.integers(0, 1)) else []
    env = {} if draw(st.integers(0, 1)) else {"REDO_LOG": "0"}
    js = None
    if kind == "redo":
        argv = ["redo", "-j%d" % draw(st.integers(2, 4))] + ["c"]     # forced rebuild of c only ...
        ts = ["c"]
        # ... plus an ordinary dependent check in the same command is not expressible with `redo`; use ifchange below
        kind = "ifchange"
    argv = ["redo-ifchange"] + ts
    js = {"tokens": draw(st.integers(1, 3)), "held": 0, "high": draw(st.integers(0, 1)) == 1}
    return {"project": proj, "invs": [{"argv": argv, "cwd": "", "env": env, "jobserver": js}], "targets": ts,
            "kind": kind, "prebuild": True, "schedule": draw(sgen.schedule()), "lossy": lossy,
            "sopts": {"seed": draw(st.integers(1, 2 ** 31 - 1)), "coincide": draw(st.integers(0, 3)) == 0,
                      "token_games": False, "patient": draw(st.integers(0, 2)) == 0}}


def run_case(case, tier):
    out = c07.run_case(case, tier)
    out.events = type(out.events)({("c03s:" + k.split(":", 1)[1] if k.startswith("c07:") else k): n
                                   for k, n in out.events.items()})
    out.events["c03s:checksum-%s" % ("unchanged" if case.get("lossy") else "changed")] += 1
    out.nontrivial = out.violation is None and bool(out.scripts)
    v = out.violation
    if v is not None and v["property"] == "C07" and v["clause"] in ("executed-set-differs-from-serial",
                                                                     "content-differs-from-serial",
                                                                     "follow-up-build-not-clean"):
        d = v.get("detail", {})
        ran = set((d.get("starts") or {}).keys())
        want = set(d.get("model_executed") or [])
        if ran - want:
            clause = "parallel/not-stopped"
        elif want - ran or v["clause"] == "content-differs-from-serial":
            clause = "parallel/not-forwarded"
        else:
            clause = "parallel/" + v["clause"]
        out.violation = dict(v, property="C03", clause=clause, sig=dict(v["sig"], tier="parallel",
                                                                          lossy=bool(case.get("lossy"))))
    return out


class Spec:
    id = "C03"
    level = "exploration"
    rule = ("Parallel tier: a checksummed target c (70% with a lossy projection, so that the edit leaves its checksum "
            "unchanged; sometimes redo-always too) with gates before its output and AFTER its redo-stamp call, a chain "
            "of 1-3 dependents (some gated at their start, some checksummed themselves), optionally an unrelated "
            "gated target; after a complete serial build the source is edited and `redo-ifchange` names c together "
            "with the top of the chain under a harness jobserver with 1-3 tokens; harness-owned schedule. Oracle "
            "(C07's serial/parallel differential, attributed to C03): the executed set equals the serial model's -- "
            "nothing above an unchanged checksum runs (not-stopped), everything above a changed one does "
            "(not-forwarded) -- and contents are from-scratch. Non-trivial = the scenario ran scripts and held.")
    assumptions = ["see C07"]

    def accepts(self, case):
        return "invs" in case

    def cases(self, tier):
        return 240 if tier == "quick" else 2400

    def strategy(self, tier):
        return cases(tier)

    def run_case(self, case, tier):
        return run_case(case, tier)


SPEC = Spec()
