"""Run one top-level redo command with a constructed environment, in its own session."""
import os
import signal
import subprocess
import time

from . import sut


class Inconclusive(Exception):
    """Harness-side problem or watchdog: never a property violation (exit 2)."""


def base_env(disk, extra=None):
    env = {
        "PATH": sut.BIN_DIR + ":/usr/bin:/bin",
        "HOME": disk.base,
        "TMPDIR": os.path.join(disk.base, "tmp"),
        "RUST_BACKTRACE": "0",
        "RV_CTL": disk.ctl,
        "RV_LIB": os.path.join(disk.ctl, "lib.sh"),
        "RV_ROOT": disk.root,
        "LC_ALL": "C",
        "REDO_PRETTY": "0",
        "REDO_COLOR": "0",
    }
    os.makedirs(env["TMPDIR"], exist_ok=True)
    if extra:
        env.update(extra)
    return env


class Result:
    def __init__(self, argv, rc, out, err, dt, timed_out=False, hang_proof=None, pid=None):
        self.pid = pid
        self.argv = argv
        self.rc = rc
        self.out = out
        self.err = err
        self.dt = dt
        self.timed_out = timed_out
        self.hang_proof = hang_proof

    def text(self):
        return (self.out + b"\n" + self.err).decode("utf-8", "replace")

    def brief(self):
        return {"argv": self.argv, "rc": self.rc, "err": self.err.decode("utf-8", "replace")[-1500:],
                "out": self.out.decode("utf-8", "replace")[-500:]}


def session_pids(sid):
    """All live pids whose session id is sid."""
    out = []
    for d in os.listdir("/proc"):
        if not d.isdigit():
            continue
        try:
            with open("/proc/%s/stat" % d) as f:
                s = f.read()
            rp = s.rindex(")")
            fields = s[rp + 2:].split()
            # fields[0]=state, [1]=ppid, [2]=pgrp, [3]=session
            if int(fields[3]) == sid and fields[0] != "Z":
                out.append(int(d))
        except (OSError, ValueError):
            continue
    return out


def cpu_ticks(pid):
    try:
        with open("/proc/%d/stat" % pid) as f:
            s = f.read()
        rp = s.rindex(")")
        fields = s[rp + 2:].split()
        return int(fields[11]) + int(fields[12]), fields[0]
    except (OSError, ValueError):
        return None, None


def proc_snapshot(pid):
    d = {"pid": pid}
    try:
        with open("/proc/%d/stat" % pid) as f:
            st_ = f.read()
        d["ppid"] = int(st_[st_.rindex(")") + 2:].split()[1])
    except (OSError, ValueError, IndexError):
        d["ppid"] = None
    for name in ("cmdline", "syscall", "wchan"):
        try:
            with open("/proc/%d/%s" % (pid, name), "rb") as f:
                d[name] = f.read().replace(b"\0", b" ").decode("utf-8", "replace").strip()[:300]
        except OSError:
            d[name] = None
    return d


def no_progress_proof(sid, windows=2, window_s=5.0):
    """True-ish (a snapshot dict) iff every live process of the session burned zero CPU ticks and kept the same
    blocking syscall over `windows` consecutive windows."""
    def relevant(ps):
        # the log follower (redo-log) polls the log files with a timer; it only reads, nothing waits for it
        keep = []
        for p_ in ps:
            try:
                with open("/proc/%d/comm" % p_) as f:
                    if f.read().strip() == "redo-log":
                        continue
            except OSError:
                pass
            keep.append(p_)
        return keep
    pids = relevant(session_pids(sid))
    if not pids:
        return None
    prev = {p: (cpu_ticks(p)[0], proc_snapshot(p).get("syscall")) for p in pids}
    for _ in range(windows):
        time.sleep(window_s)
        now = relevant(session_pids(sid))
        if set(now) != set(prev):
            return None
        cur = {p: (cpu_ticks(p)[0], proc_snapshot(p).get("syscall")) for p in now}
        for p in now:
            if cur[p][0] is None or cur[p][0] != prev[p][0]:
                return None
            a = (cur[p][1] or "").split(" ")[0]
            b = (prev[p][1] or "").split(" ")[0]
            if a != b or a in ("running", ""):
                return None
        prev = cur
    try:
        with open("/proc/locks") as f:
            locks = f.read()[-4000:]
    except OSError:
        locks = ""
    return {"procs": [proc_snapshot(p) for p in pids], "locks": locks}


def kill_session(sid):
    for _ in range(5):
        pids = session_pids(sid)
        if not pids:
            return
        for p in pids:
            try:
                os.kill(p, signal.SIGKILL)
            except OSError:
                pass
        time.sleep(0.02)


def run_cmd(disk, argv, cwd="", env_extra=None, timeout=60.0, pass_fds=(), stdin=subprocess.DEVNULL):
    env = base_env(disk, env_extra)
    t0 = time.time()
    p = subprocess.Popen(argv, cwd=disk.abspath(cwd), env=env, stdin=stdin, stdout=subprocess.PIPE,
                         stderr=subprocess.PIPE, start_new_session=True, pass_fds=pass_fds, close_fds=True)
    try:
        out, err = p.communicate(timeout=timeout)
        # stragglers (e.g. orphaned scripts after an abort) must not leak into the next step
        if session_pids(p.pid):
            time.sleep(0.05)
        return Result(argv, p.returncode, out, err, time.time() - t0, pid=p.pid)
    except subprocess.TimeoutExpired:
        proof = no_progress_proof(p.pid)
        kill_session(p.pid)
        try:
            out, err = p.communicate(timeout=5)
        except subprocess.TimeoutExpired:
            out, err = b"", b""
        return Result(argv, p.returncode, out, err, time.time() - t0, timed_out=True, hang_proof=proof, pid=p.pid)


def stragglers(res_pid):
    return session_pids(res_pid)
