#!/usr/bin/env python3
"""Regenerate the sub-agent prompt files (/tmp/wt/prompts/<Cxx>.txt) used to obtain independent seeded changes.
Each sub-agent gets ONLY the property record and its own scratch worktree /tmp/wt/<Cxx> (git -C /repo worktree add
--detach /tmp/wt/<Cxx> HEAD; pre-warm with cp -r /verif/target/sut/debug /tmp/wt/<Cxx>/target/).  Nothing from /verif."""
import json
import os

HERE = os.path.dirname(os.path.abspath(__file__))
T = """You are working in a scratch git worktree of the open-source repository zombiezen/redo-rs (a Rust port of apenwarr's `redo` build system: SQLite-backed dependency state in .redo/db.sqlite3, fcntl target locks, GNU-make-compatible pipe jobserver). Your worktree is {wt} . Work ONLY inside {wt} (and scratch directories you create under /tmp/wt-scratch-{id}/). Do NOT read or touch /repo or /verif or any other /tmp/wt/* directory. There is no network.

TASK (mutation seeding for a verification study): produce a small source change to redo-rs in your worktree that BREAKS the semantic property quoted below, while the crate still compiles (no new warnings that would stand out) and the complete existing test suite still passes. The change should look like a realistic slip a maintainer could make (a refactoring that moves a statement, a wrong condition or comparison, a dropped step, a wrong variable, an off-by-one, a too-early release of a resource, a swapped order of two operations ...) - not sabotage with obviously dead code or special-cased names. Most important: the breakage must need SOMETHING SPECIFIC to manifest - a particular interleaving of processes, a crash or fault at a particular point, a multi-step sequence of operations, an unusual input, or two cooperating code sites that each look fine alone. A change that ordinary use (or the existing tests) would expose at once is NOT wanted.

THE PROPERTY (JSON record; `statement` is what must be broken, `quantifier` says over what it ranges, `anchors` points at the code involved):

{prop}

HOW TO BUILD AND TEST (all offline):
  export CARGO_NET_OFFLINE=true CARGO_TARGET_DIR={wt}/target
  cd {wt} && cargo build --offline --bin redo            # dev profile; target dir is pre-warmed, incremental builds take seconds
  cd {wt} && cargo test --workspace --no-fail-fast --offline   # the existing suite: must still pass WITH your change, at least twice in a row (the integration test re-uses state of a previous run)
To use the tools, make a bin directory in which `redo` is a COPY of target/debug/redo and these ten names are symlinks to it: redo-always redo-ifchange redo-ifcreate redo-log redo-ood redo-sources redo-stamp redo-targets redo-unlocked redo-whichdo ; put it first on PATH, and unset every REDO* variable, MAKEFLAGS and DO_BUILT before running anything. Build one such bin dir from the UNMODIFIED tree first (/tmp/wt-scratch-{id}/bin-orig) and one from your modified tree (/tmp/wt-scratch-{id}/bin-mut).

DELIVERABLES, all in {wt}/seeded-out/ : patch.diff (git diff of the source change only; must apply with `git apply` to the unmodified tree); demo.sh or demo.py (one argument: the bin directory; own scratch project under mktemp -d; exit 0 = property held, 1 = violated, 2 = harness problem; exits 0 with bin-orig and 1 with bin-mut reliably, within 2 minutes, controlling any race itself); notes.md; test-suite.log (run WITH the final change).

Rules: minimal change (ideally < 15 lines, one or two sites). Do not modify tests, t/, Cargo.toml or build scripts. No cfg flags, environment switches or name-based special cases. Leave the worktree with the change applied, uncommitted. Never use pkill/killall with name patterns. Reply with a short summary: the idea, files touched, test result counts, demo results.
"""


def main():
    props = {json.loads(l)["id"]: json.loads(l) for l in open(os.path.join(HERE, "properties.jsonl"))}
    os.makedirs("/tmp/wt/prompts", exist_ok=True)
    for pid, p in props.items():
        with open("/tmp/wt/prompts/%s.txt" % pid, "w") as f:
            f.write(T.format(wt="/tmp/wt/" + pid, id=pid, prop=json.dumps(p, indent=1)))
    print("wrote", len(props), "prompt files to /tmp/wt/prompts")


if __name__ == "__main__":
    main()
