#!/usr/bin/env python3
"""Regenerate the seeded-change table in DESIGN.md (between the SEEDED-TABLE markers) from seeded/*/meta.json."""
import json
import os
import re

HERE = os.path.dirname(os.path.abspath(__file__))


def main():
    rows = []
    for sid in sorted(os.listdir(os.path.join(HERE, "seeded"))):
        mp = os.path.join(HERE, "seeded", sid, "meta.json")
        if not os.path.exists(mp):
            continue
        m = json.load(open(mp))
        res = m.get("check_results", {})
        caught = [c for c, r in res.items() if r.get("red")]
        missed = [c for c, r in res.items() if not r.get("red")]
        rows.append("| `seeded/%s` | %s | %s | %s | %s | %s |" % (
            sid, m.get("property"), m.get("needs_to_manifest", "").replace("|", "/"),
            m.get("first_result", "?"), ", ".join(caught) or "–",
            (m.get("caught_by", "") or "").replace("|", "/")))
    table = ("| change | property | needs, to manifest | first run | red now | how |\n|---|---|---|---|---|---|\n"
             + "\n".join(rows))
    p = os.path.join(HERE, "DESIGN.md")
    s = open(p).read()
    block = "<!-- SEEDED-TABLE-BEGIN -->\n" + table + "\n<!-- SEEDED-TABLE-END -->"
    if "SEEDED_TABLE_PLACEHOLDER" in s:
        s = s.replace("SEEDED_TABLE_PLACEHOLDER", block)
    else:
        s = re.sub(r"<!-- SEEDED-TABLE-BEGIN -->.*?<!-- SEEDED-TABLE-END -->", lambda _: block, s, flags=re.S)
    open(p, "w").write(s)
    print(table)


if __name__ == "__main__":
    main()
