#!/usr/bin/env python3
"""Regenerate MANIFEST.json from the table below (kept in one place so that it is always schema-valid)."""
import json
import os

HERE = os.path.dirname(os.path.abspath(__file__))
props = [json.loads(l) for l in open(os.path.join(HERE, "properties.jsonl"))]

CHECKS = {}


def chk(pid, category, text, note, technique, design_ref, engine):
    CHECKS[pid] = {
        "property_id": pid,
        "quick_cmd": "./check %s quick" % pid,
        "thorough_cmd": "./check %s thorough" % pid,
        "evidence_file": "/verif/evidence/%s.json" % pid,
        "replay_cmd_template": "./check --replay {path}",
        "engine": engine,
        "level_claimed": {"category": category, "text": text, "design_ref": design_ref},
        "level_note": note,
        "technique": technique,
    }


H_NOTE = ("Trusted: the reference model rv/model.py (independent re-statement of redo's documented semantics), the "
          "instrumented script library rv/lib.sh, dash as sh, tmpfs under /dev/shm. Bounded to generated projects of "
          "<= 8 (quick) / 14 (thorough) targets and histories of <= 22 / 30 operations at -j1. Operations: commands from "
          "several cwds, source edits that may REVERT to earlier bytes, touches, target removals, .do edits/additions/"
          "removals, watched paths created as files or directories, fail/stamp flag toggles, manual file operations, "
          "queries, and (C01/C02) commands killed before their n-th state-changing libc call followed by a recovery run.")

chk("C01", "exploration",
    "Generated histories against the real binary; after every successful command the requested closure must equal an "
    "independent from-scratch evaluation and must not be listed by redo-ood. Finds staleness that needs a particular "
    "order of edits / forced rebuilds / checksummed rebuilds / interrupted builds (found D1). Three generator families: "
    "general, dense in (conditionally) checksummed rules, and tiny projects with a small operation alphabet. Fourth shape: a directory of generated-only files removed and re-created by the user (builds into the missing directory fail and must be remembered as failed).", H_NOTE,
    "property-based testing: Hypothesis-generated histories, from-scratch content oracle", "DESIGN.md §4 C01", "H")
chk("C02", "exploration",
    "Generated histories; the multiset of executed scripts of every command must equal the prediction of a reference "
    "model that tracks the dependency versions seen at each target's last build; histories include killed commands "
    "(recovery run judged on contents/status only) (found D19, D24). A directed family of chains with >= 2 checksummed levels; the known finding D12 is matched EXACTLY (the model also evaluates the implementation's single-round settle over all settle orders).", H_NOTE,
    "property-based testing: Hypothesis-generated histories vs reference model (execution multiset)", "DESIGN.md §4 C02", "H")
chk("C03", "exploration",
    "Generated histories over graphs dense in redo-stamp targets with lossy projections; per executed checksummed "
    "target the stop / forward clauses are checked against the model; all 8 classes (changed x depth x in/out-of-band) "
    "must be populated or the run is inconclusive. Rules may stamp conditionally and sources may revert to earlier "
    "bytes. Parallel tier: a checksummed target held by the harness between its redo-stamp call and its exit while "
    "sibling jobs check or build its dependents (serial/parallel differential). Directed nested-chain family (>= 2 checksummed levels, lossy projections per level; found D21's consequence, fixed); D12 matched exactly by the single-round variant of the model.", H_NOTE,
    "property-based testing: Hypothesis-generated histories, stop/forward relation vs reference model + schedule "
    "fuzzing with serial/parallel differential", "DESIGN.md §4 C03, §10.5", "H+S")
chk("C05", "exploration",
    "Generated histories with harness-controlled failing scripts, multi-target command lines, keep-going on/off; exit "
    "status class, nested redo-ifchange statuses, execution multiset (retry next run, nothing started after a known "
    "failure, keep-going completeness), never twice per run, redo-ood after failure. Second tier (rv/props/c05s.py): "
    "gated parallel scenarios, optionally with another invocation holding locks: exit status, failing script at most "
    "once per invocation, no new script from a redo process after one of its scripts failed and the system was "
    "quiescent (unless keep-going), keep-going completeness.", H_NOTE + " " + "Parallel tier: see the S-engine note in C06. Parallel tier also: a redo-ifchange that is TOLD about a failure (target failed earlier in this run) must not start what it lists after it (directed shared-failing-leaf family). Directed check-then-fail family (verified clean, force-rebuilt and failed, other dependent requested, all in one run).",
    "property-based testing: Hypothesis-generated failure histories vs reference model + schedule fuzzing with trace invariants", "DESIGN.md §4 C05, §10", "H+S")
chk("C11", "exploration",
    "Generated histories mixing builds with manual create/edit/replace/remove of rule-matched names; bytes, inode and "
    "mtime of every user-owned file are compared after every command; override warning, rebuild after removal and "
    "redo-targets/redo-sources roles are checked against an ownership model. Scripts may replace their own target by "
    "hand while the build runs (the user acting concurrently): that command must fail and leave the file alone "
    "(found D19, D29; known D28). Second tier: a hand-made file put at the target's name while redo waits for the database write lock (held by the harness as a concurrent writer) at the end of that target's build.", H_NOTE,
    "property-based testing: Hypothesis-generated histories, ownership model + stat/bytes invariants", "DESIGN.md §4 C11", "H")
chk("C14", "exploration",
    "Generated histories creating/deleting watched paths across runs over graphs dense in ifcreate and always "
    "declarations (watched paths appear as files or directories); execution multiset and nested call statuses vs "
    "model. Parallel tier: graphs dense in always-targets under harness-owned schedules at -j1..8, serial/parallel "
    "differential (at most one start per always-target, follow-up run rebuilds exactly the always-targets).", H_NOTE,
    "property-based testing: Hypothesis-generated histories vs reference model + schedule fuzzing with serial/parallel differential", "DESIGN.md §4 C14, §10.5", "H+S")
chk("C17", "exploration",
    "Queries inserted at random points of generated histories; listing compared with model lower/upper bounds and "
    "roles; metamorphic twin run without the queries must produce identical build traces and bytes.", H_NOTE,
    "property-based testing: bounds oracle + metamorphic with/without-queries differential", "DESIGN.md §4 C17", "H")

P_NOTE = ("Trusted: the independent reference implementations in inproc/src/reference.rs and rv/project.py "
          "(do_candidates), the kernel's path resolution, proptest, plus the H-engine trusted base for the end-to-end "
          "half. If an edit to /repo breaks the public API used by inproc/, the in-process half is reported as disabled "
          "in the evidence and only the end-to-end half decides.")
chk("C13", "exploration",
    "In-process proptest of possible_do_files against a reference enumeration (20k quick / 2M thorough paths) plus "
    "generated end-to-end histories checking redo-whichdo, the chosen script, $1/$2/$3/cwd and rebuild after adding / "
    "removing candidates, for a target and a sibling that shares every default*.do candidate. Coverage-guided: "
    "libFuzzer target `dofiles` (100k quick / 3M thorough executions). End-to-end cases include a second branch with equally named directories at the same depths, from which the target is requested and redo-whichdo is asked.", P_NOTE,
    "property-based testing: proptest + libFuzzer vs reference enumeration + Hypothesis end-to-end histories", "DESIGN.md §4 C13", "P+H")
chk("C15", "exploration",
    "normpath is checked on every string over {/,.,a,b} up to length 9 (11 thorough) and {/,.,a} up to 11 (14) against "
    "an independent cleanname, idempotence, shape invariants and the kernel; proptest for long/unicode strings; relpath "
    "re-join and spelling-agreement in a tree with symlinked directories; end-to-end: 2-4 spellings of one target on one "
    "command line at -j1..4 must give one build and one canonical database row; contention tier (engine S): the same "
    "while another invocation holds the target's lock (its script at a gate) -- each file's script is started at most "
    "once by the measured command. Coverage-guided: libFuzzer target `normpath` (400k / 8M executions). A grand-parent script changes directory before redo-ifchange (names relative to that directory, out-of-band settle from there).", P_NOTE,
    "exhaustive enumeration + proptest + libFuzzer vs reference/kernel oracle + Hypothesis end-to-end cases and scheduled contention scenarios", "DESIGN.md §4 C15, §10.5", "P+H+S")
chk("C18", "exploration",
    "In-process round trip through the real formatter and parser for generated (kind, pid, text); end-to-end: generated "
    "graphs whose scripts write numbered stderr lines (partial, long, odd payloads) built at -j1..4, live output and "
    "redo-log replay parsed and compared per target; lines cut into up to five separately written pieces, targets in "
    "two directories, whole lines in record form (known D15); live output also in the default pretty format; a second "
    "command rebuilds a subset with other lines (log replaced at each build start), replayed with -r and with -r -u "
    "(unchanged targets shown once with the lines of their last build; found D30). Coverage-guided: libFuzzer target `meta` (parse -> "
    "format -> parse fixed point, 400k / 8M executions) (found D27; known D15, D16).", P_NOTE,
    "property-based testing: proptest round trip + libFuzzer + Hypothesis end-to-end per-target sequence invariant", "DESIGN.md §4 C18", "P+S-lite")

S_NOTE = ("Trusted: rv/sched.py (event FIFO, gates, /proc-based quiescence, SIGSTOP/SIGCONT coincidences, harness "
          "jobserver pipes), the instrumented scripts, the kernel's fcntl/pipe semantics. Schedules are owned at the "
          "granularity of script completions, token arrivals and invocation starts; interleavings inside one redo "
          "process between two syscalls are only perturbed by load, not enumerated. A saved schedule can be flaky on "
          "replay (oracles are invariants over all schedules, so this costs reproducibility, not soundness). A hang "
          "verdict needs a zero-CPU proof; anything else over budget exits 2.")
chk("C04", "fault_enumeration",
    "Every combination of 14 script behaviours x 6 payload sizes x 3 prior states (absent, previously generated, made by "
    "hand) x 2 commands is executed (4 rounds quick, 16 thorough, different payload bytes / log / exit code / directory "
    "/ kill position) plus sampled extras; expectation table "
    "from the statement, stat+bytes of the previous target, stray-file scan, a reader thread and inotify for atomicity.",
    "Trusted: inotify, the sampling reader (millions of reads per run), dash. Kill points inside the script are "
    "before any output / after half the payload / after all of it; kills of redo itself are C10's subject.",
    "exhaustive fault enumeration (cross product) + Hypothesis sampling, table/stat/inotify oracles", "DESIGN.md §4 C04", "K-lite")
chk("C06", "exploration",
    "2-4 overlapping top-level invocations over gated scripts, start times and completion order decided by the "
    "harness, failing scripts and group signals; no script start for a target may arrive while another live "
    "execution of it is open. 45% of the scenarios are rebuilds after a complete serial build and a source edit "
    "(out-of-band path through redo-unlocked). Second tier (stop points): invocation P1 is frozen immediately before "
    "each of its state-changing libc calls in turn while a second redo-ifchange runs; a target already finished must "
    "not run again (decides 'recorded before any other process may decide').", S_NOTE,
    "schedule fuzzing: Hypothesis-generated scenarios + harness-owned schedules, trace interval invariant; fault "
    "enumeration: freeze at every state-changing call while a second invocation runs", "DESIGN.md §4 C06, §10.5", "S+K")
chk("C07", "exploration",
    "One parallel invocation under a generated schedule vs the model's serial evaluation and a real serial build in a "
    "sibling directory: at most one start per target, same exit status, executed set, bytes, Files flags and Deps "
    "edges; follow-up build clean. A quarter of the scenarios contain failing scripts (once-per-run/overlap and exit status only).", S_NOTE,
    "schedule fuzzing + serial/parallel differential (model and real -j1 build)", "DESIGN.md §4 C07", "S")
chk("C08", "exploration",
    "Own jobserver (-j1..8) and harness-as-parent-jobserver (K tokens in the pipe, H held back and given/stolen at "
    "decision points, low/high fd numbers), failing / error-exit variants, second contending invocation, coincidence "
    "schedules: work-section overlap <= limit (+1 with log capture), no token-count error, FIONREAD accounting. 35% of "
    "the cases come from a directed lock-wait family (another invocation holds gated leaves; the measured one runs "
    "under the harness jobserver with 0-1 tokens and log capture and must wait for the locks one after the other; the "
    "harness steals the parked token while redo blocks in F_SETLKW and returns it later) -- the cheat-token paths. "
    "A redo process may not exit while a script it started still sits at a gate (orphan oracle), except on "
    "internal-error exits.", S_NOTE,
    "schedule fuzzing with harness-played jobserver, token-accounting invariants", "DESIGN.md §4 C08", "S")
chk("C09", "exploration",
    "1-3 invocations, -j1..8, shuffle, inherited jobserver, duplicate spellings; which gated scripts finish together "
    "with each other and/or a token arrival inside one wake-up of their owner is decided by the harness "
    "(SIGSTOP/SIGCONT). Every invocation must end with exit 0 and without panic/EDEADLK/'JobServer deadlock'; hangs "
    "need a no-progress proof. Two more tiers: SYSTEMATIC -- for small scenarios every schedule is executed (every "
    "non-empty subset of {gated script k exits, token arrives} at every quiescent point, recursively; exhaustive); "
    "TOKEN RACE -- every read() of the jobserver pipe by any redo process loses the race to another process in turn "
    "(LD_PRELOAD shim), plus cases where every token stays away for 70 s / 150 s (timer expiries) (found D25, D26).",
    S_NOTE + " Systematic tier: exhaustive for the listed scenario sizes only. Token-race tier: its hang verdict is an "
    "identical-syscall-line proof on a pipe whose contents the harness owns.",
    "schedule fuzzing with coincidence injection + exhaustive schedule enumeration (small scenarios) + fault "
    "enumeration at every token read; crash/hang oracle", "DESIGN.md §4 C09, §10.5", "S+K")
chk("C10", "fault_enumeration",
    "Per generated project and state the state-changing libc calls of the redo binary are numbered by an LD_PRELOAD "
    "shim and a kill (caller or whole group) is injected immediately before each one (all points for 2 projects x 2 "
    "states and every 3rd elsewhere in quick; all points of 40 projects in thorough); recovery, further edit, "
    "rebuild and redo-ood are checked against from-scratch contents. Failures are classified by the semantic window "
    "read off the post-crash state (W1/W2/W3). Known-finding signatures carry the state of the database row (not-generated / generated+no-stamp / generated+old-stamp).",
    "Trusted: shim/verifshim.c (interposes rename/unlink/open*/creat/write/pwrite/writev/ftruncate/mkdir/link/symlink), "
    "deterministic call numbering at -j1 between counting run and crash runs, SIGKILL as the crash model (no power loss).",
    "fault injection: exhaustive crash-point enumeration via LD_PRELOAD, recovery vs from-scratch oracle", "DESIGN.md §4 C10", "K")
chk("C12", "exploration",
    "Generated graphs with a cycle of length 1-5, prefixes, siblings and second entries, every kind of entry set, "
    "-j1..4; must terminate non-zero with the cycle identified; hang only with proof. The known hanging shape (D8) is "
    "generated in ~8% of its natural share and counted as excluded otherwise. 40% of the cases build an acyclic "
    "version first and close the cycle by a .do edit, with checksummed members (found D22). Flag flavour: the cycle is closed by an undeclared input and met only through the recorded graph when the closing member is forced.", S_NOTE,
    "schedule fuzzing over generated cyclic graphs, termination + status oracle", "DESIGN.md §4 C12", "S")
chk("C16", "exploration",
    "2-10 commands (builds and queries) started within 0-20 ms on a fresh or pre-built project; exit statuses, SQLite "
    "error strings, integrity_check and presence of every Files/Deps row of every script that ran. Command lines may "
    "name existing files redo has never seen; produced files may be removed before the race (found D2, D10, D23). Second tier: a script pipes into redo-stamp through a gated producer; commands started meanwhile get 75 s and must not fail with a busy error.",
    "Trusted: kernel scheduling noise as the source of transaction interleavings (not enumerated); sqlite3 module for "
    "the read-only inspection after all processes are gone.",
    "concurrency fuzzing: generated command mixes started together, error-string + record-presence oracle", "DESIGN.md §4 C16", "S-free")

manifest = {
    "version": 1,
    "setup_cmd": "./check --setup",
    "hooks": {
        "guard": "redo_verif",
        "enable": "no hooks are needed or used: every observation is made from outside the binary (RUSTFLAGS='--cfg redo_verif' is reserved as the guard name)",
        "baseline_off_cmd": "cd /repo && cargo test --workspace --no-fail-fast --offline",
        "source_commits": [],
        "add_only": True,
    },
    "engines": [
        {"name": "H", "path": "rv/hist.py", "serves_properties": ["C01", "C02", "C03", "C05", "C11", "C13", "C14", "C15", "C17"],
         "kind_free_text": "Hypothesis-generated serial histories run against the real redo binary and the reference model rv/model.py"},
        {"name": "S", "path": "rv/sched.py", "serves_properties": ["C06", "C07", "C08", "C09", "C12", "C16"],
         "kind_free_text": "harness-owned schedules: gated scripts, event FIFO, quiescence via /proc, SIGSTOP/SIGCONT coincidences, harness as parent jobserver"},
        {"name": "K", "path": "shim/verifshim.c + rv/props/c10.py, rv/props/c04.py", "serves_properties": ["C04", "C10"],
         "kind_free_text": "fault enumeration: LD_PRELOAD crash points (kill caller/group before the n-th state-changing call), script failure-mode cross product"},
        {"name": "P", "path": "inproc/", "serves_properties": ["C13", "C15", "C18"],
         "kind_free_text": "Rust crate linking /repo's library: proptest TestRunner (seeded), exhaustive enumeration, independent reference implementations"},
        {"name": "F", "path": "fuzz/", "serves_properties": ["C13", "C15", "C18"],
         "kind_free_text": "cargo-fuzz (libFuzzer, nightly toolchain) targets with the oracle inside the target: normpath, meta, dofiles"},
    ],
    "checks": [CHECKS[p["id"]] for p in props if p["id"] in CHECKS],
    "notes": "All checks rebuild /repo's working tree into /verif/target/sut first. Exit 2 = inconclusive (harness/watchdog), never a violation.",
    "not_applicable": [{"property_id": p["id"], "reason": "check under construction in this session (not yet registered)"}
                       for p in props if p["id"] not in CHECKS],
}
json.dump(manifest, open(os.path.join(HERE, "MANIFEST.json"), "w"), indent=1)
print("checks:", len(manifest["checks"]), "not_applicable:", len(manifest["not_applicable"]))
