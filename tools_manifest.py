#!/usr/bin/env python3
"""Regenerate MANIFEST.json from the table below (kept in one place so that it is always schema-valid)."""
import json
import os

HERE = os.path.dirname(os.path.abspath(__file__))
props = [json.loads(l) for l in open(os.path.join(HERE, "properties.jsonl"))]

CHECKS = {}


def chk(pid, category, text, note, technique, design_ref, engine):
    CHECKS[pid] = {
        "property_id": pid,
        "quick_cmd": "./check %s quick" % pid,
        "thorough_cmd": "./check %s thorough" % pid,
        "evidence_file": "/verif/evidence/%s.json" % pid,
        "replay_cmd_template": "./check --replay {path}",
        "engine": engine,
        "level_claimed": {"category": category, "text": text, "design_ref": design_ref},
        "level_note": note,
        "technique": technique,
    }


H_NOTE = ("Trusted: the reference model rv/model.py (independent re-statement of redo's documented semantics), the "
          "instrumented script library rv/lib.sh, dash as sh, tmpfs under /dev/shm. Bounded to generated projects of "
          "<= 8 (quick) / 14 (thorough) targets and histories of <= 14 / 30 operations at -j1.")

chk("C01", "exploration",
    "Generated histories against the real binary; after every successful command the requested closure must equal an "
    "independent from-scratch evaluation and must not be listed by redo-ood. Finds staleness that needs a particular "
    "order of edits / forced rebuilds / checksummed rebuilds (found D1).", H_NOTE,
    "property-based testing: Hypothesis-generated histories, from-scratch content oracle", "DESIGN.md §4 C01", "H")
chk("C02", "exploration",
    "Generated histories; the multiset of executed scripts of every command must equal the prediction of a reference "
    "model that tracks the dependency versions seen at each target's last build.", H_NOTE,
    "property-based testing: Hypothesis-generated histories vs reference model (execution multiset)", "DESIGN.md §4 C02", "H")
chk("C03", "exploration",
    "Generated histories over graphs dense in redo-stamp targets with lossy projections; per executed checksummed "
    "target the stop / forward clauses are checked against the model; all 8 classes (changed x depth x in/out-of-band) "
    "must be populated or the run is inconclusive.", H_NOTE,
    "property-based testing: Hypothesis-generated histories, stop/forward relation vs reference model", "DESIGN.md §4 C03", "H")
chk("C05", "exploration",
    "Generated histories with harness-controlled failing scripts, multi-target command lines, keep-going on/off; exit "
    "status class, nested redo-ifchange statuses, execution multiset (retry next run, nothing started after a known "
    "failure, keep-going completeness), never twice per run, redo-ood after failure.", H_NOTE,
    "property-based testing: Hypothesis-generated failure histories vs reference model + trace invariants", "DESIGN.md §4 C05", "H")
chk("C11", "exploration",
    "Generated histories mixing builds with manual create/edit/replace/remove of rule-matched names; bytes, inode and "
    "mtime of every user-owned file are compared after every command; override warning, rebuild after removal and "
    "redo-targets/redo-sources roles are checked against an ownership model.", H_NOTE,
    "property-based testing: Hypothesis-generated histories, ownership model + stat/bytes invariants", "DESIGN.md §4 C11", "H")
chk("C14", "exploration",
    "Generated histories creating/deleting watched paths across runs over graphs dense in ifcreate and always "
    "declarations; execution multiset and nested call statuses vs model.", H_NOTE,
    "property-based testing: Hypothesis-generated histories vs reference model", "DESIGN.md §4 C14", "H")
chk("C17", "exploration",
    "Queries inserted at random points of generated histories; listing compared with model lower/upper bounds and "
    "roles; metamorphic twin run without the queries must produce identical build traces and bytes.", H_NOTE,
    "property-based testing: bounds oracle + metamorphic with/without-queries differential", "DESIGN.md §4 C17", "H")

manifest = {
    "version": 1,
    "setup_cmd": "./check --setup",
    "hooks": {
        "guard": "redo_verif",
        "enable": "no hooks are needed or used: every observation is made from outside the binary (RUSTFLAGS='--cfg redo_verif' is reserved as the guard name)",
        "baseline_off_cmd": "cd /repo && cargo test --workspace --no-fail-fast --offline",
        "source_commits": [],
        "add_only": True,
    },
    "engines": [
        {"name": "H", "path": "rv/hist.py", "serves_properties": ["C01", "C02", "C03", "C05", "C11", "C14", "C17"],
         "kind_free_text": "Hypothesis-generated serial histories run against the real redo binary and the reference model rv/model.py"},
    ],
    "checks": [CHECKS[p["id"]] for p in props if p["id"] in CHECKS],
    "notes": "All checks rebuild /repo's working tree into /verif/target/sut first. Exit 2 = inconclusive (harness/watchdog), never a violation.",
    "not_applicable": [{"property_id": p["id"], "reason": "check under construction in this session (not yet registered)"}
                       for p in props if p["id"] not in CHECKS],
}
json.dump(manifest, open(os.path.join(HERE, "MANIFEST.json"), "w"), indent=1)
print("checks:", len(manifest["checks"]), "not_applicable:", len(manifest["not_applicable"]))
