#!/bin/sh
# usage: tools_runall.sh <seed> [tier] [ids...]  -- run checks sequentially on /repo as it is, summarise
seed=${1:-0}; tier=${2:-quick}; shift; shift
ids=${*:-C01 C02 C03 C04 C05 C06 C07 C08 C09 C10 C11 C12 C13 C14 C15 C16 C17 C18}
cd "$(dirname "$0")" || exit 2
mkdir -p target/runall
for id in $ids; do
  VERIF_SEED=$seed RV_KEEP_FOREIGN=1 ./check $id $tier > target/runall/$id.$seed.log 2>&1
  echo "$id seed=$seed exit=$? $(grep -c '^VIOLATION' target/runall/$id.$seed.log) viol; $(grep -c '^KNOWN-FINDING' target/runall/$id.$seed.log) known; foreign=$(jq -c '.coverage.other_property_symptoms_seen // {}' evidence/$id.json 2>/dev/null) inconclusive=$(jq -c '.coverage.inconclusive_cases // 0' evidence/$id.json 2>/dev/null); $(tail -1 target/runall/$id.$seed.log)"
done
