/* LD_PRELOAD shim: counts / logs / kills at state-changing libc calls of the system under test.
 *
 * Active only in processes whose /proc/self/exe equals $RV_SHIM_EXE.
 * $RV_SHIM_CTR  : file holding a shared 64-bit counter (mmap'ed, shared across the process tree)
 * $RV_SHIM_LOG  : append-only log, one line per counted call: "<n> <pid> <call> <path>"
 * $RV_SHIM_KILL_AT=<n>, $RV_SHIM_VICTIM=self|group : SIGKILL immediately BEFORE the n-th call
 * $RV_SHIM_STOP_AT=<n> : the process issuing the n-th call SIGSTOPs itself immediately before it (the harness decides
 *                        when it continues)
 * $RV_SHIM_ROOT : only paths under this directory are counted (the project root)
 * $RV_SHIM_WRITES=1 : also count write()/pwrite()/writev() on files under $RV_SHIM_ROOT
 * $RV_SHIM_RACE_FD=<fd>, $RV_SHIM_RACE_AT=<k>, $RV_SHIM_RACE_OUT=<fd> : reads on <fd> (the jobserver token pipe) are
 *     numbered across the process tree (second counter slot, logged as "r<k> <pid> tokread"); the k-th one LOSES THE
 *     RACE: immediately before it, the shim takes one byte out of the pipe (what a sibling process that "got there
 *     first" does) and passes it to the harness through RACE_OUT, then lets the real read() proceed on the now
 *     possibly empty pipe.
 */
#define _GNU_SOURCE
#include <dlfcn.h>
#include <errno.h>
#include <fcntl.h>
#include <limits.h>
#include <signal.h>
#include <stdarg.h>
#include <stdint.h>
#include <stdio.h>
#include <stdlib.h>
#include <string.h>
#include <sys/mman.h>
#include <sys/stat.h>
#include <sys/types.h>
#include <sys/uio.h>
#include <unistd.h>

static int active = -1;
static volatile uint64_t *ctr;
static int logfd = -1;
static uint64_t kill_at;
static uint64_t stop_at;
static int victim_group;
static int count_writes;
static char root[PATH_MAX];
static size_t rootlen;
static __thread int busy;
static int race_fd = -1, race_out = -1;
static uint64_t race_at;

static void init(void) {
    if (active != -1) return;
    active = 0;
    const char *exe = getenv("RV_SHIM_EXE");
    const char *cf = getenv("RV_SHIM_CTR");
    const char *r = getenv("RV_SHIM_ROOT");
    if (!exe || !cf || !r) return;
    char self[PATH_MAX];
    ssize_t n = readlink("/proc/self/exe", self, sizeof self - 1);
    if (n <= 0) return;
    self[n] = 0;
    if (strcmp(self, exe) != 0) return;
    int (*ropen)(const char *, int, ...) = dlsym(RTLD_NEXT, "open");
    int fd = ropen(cf, O_RDWR);
    if (fd < 0) return;
    void *p = mmap(NULL, 4096, PROT_READ | PROT_WRITE, MAP_SHARED, fd, 0);
    close(fd);
    if (p == MAP_FAILED) return;
    ctr = (volatile uint64_t *)p;
    const char *lf = getenv("RV_SHIM_LOG");
    if (lf) {
        logfd = ropen(lf, O_WRONLY | O_APPEND | O_CREAT | O_CLOEXEC, 0644);
        if (logfd >= 0 && logfd < 900) {   /* keep it away from the fds redo cares about */
            int hi = fcntl(logfd, F_DUPFD_CLOEXEC, 900);
            if (hi >= 0) { close(logfd); logfd = hi; }
        }
    }
    const char *k = getenv("RV_SHIM_KILL_AT");
    kill_at = k ? strtoull(k, NULL, 10) : 0;
    const char *sa = getenv("RV_SHIM_STOP_AT");
    stop_at = sa ? strtoull(sa, NULL, 10) : 0;
    const char *v = getenv("RV_SHIM_VICTIM");
    victim_group = v && strcmp(v, "group") == 0;
    const char *w = getenv("RV_SHIM_WRITES");
    count_writes = w && *w == '1';
    strncpy(root, r, sizeof root - 1);
    rootlen = strlen(root);
    const char *rf = getenv("RV_SHIM_RACE_FD"), *ra = getenv("RV_SHIM_RACE_AT"), *ro = getenv("RV_SHIM_RACE_OUT");
    if (rf) race_fd = atoi(rf);
    if (ra) race_at = strtoull(ra, NULL, 10);
    if (ro) race_out = atoi(ro);
    active = 1;
}

static int under_root(const char *abs) {
    return strncmp(abs, root, rootlen) == 0 && (abs[rootlen] == '/' || abs[rootlen] == 0);
}

static const char *absolutize(int dirfd, const char *path, char *buf, size_t n) {
    if (!path) return NULL;
    if (path[0] == '/') return path;
    char base[PATH_MAX];
    if (dirfd == AT_FDCWD) {
        if (!getcwd(base, sizeof base)) return NULL;
    } else {
        char link[64];
        snprintf(link, sizeof link, "/proc/self/fd/%d", dirfd);
        ssize_t k = readlink(link, base, sizeof base - 1);
        if (k <= 0) return NULL;
        base[k] = 0;
    }
    snprintf(buf, n, "%s/%s", base, path);
    return buf;
}

static void point(const char *call, int dirfd, const char *path) {
    if (active != 1 || busy) return;
    busy = 1;
    char buf[PATH_MAX * 2];
    const char *abs = absolutize(dirfd, path, buf, sizeof buf);
    if (abs && under_root(abs)) {
        uint64_t n = __atomic_add_fetch(ctr, 1, __ATOMIC_SEQ_CST);
        if (logfd >= 0) {
            char line[PATH_MAX + 128];
            int len = snprintf(line, sizeof line, "%llu %d %s %s\n", (unsigned long long)n, (int)getpid(), call,
                               abs + rootlen);
            ssize_t (*rwrite)(int, const void *, size_t) = dlsym(RTLD_NEXT, "write");
            if (len > 0) rwrite(logfd, line, (size_t)len);
        }
        if (stop_at && n == stop_at) {
            raise(SIGSTOP);
        }
        if (kill_at && n == kill_at) {
            if (victim_group) kill(0, SIGKILL);
            kill(getpid(), SIGKILL);
            for (;;) pause();
        }
    }
    busy = 0;
}

static void fdpoint(const char *call, int fd) {
    if (active != 1 || busy || !count_writes) return;
    char link[64], target[PATH_MAX];
    snprintf(link, sizeof link, "/proc/self/fd/%d", fd);
    ssize_t k = readlink(link, target, sizeof target - 1);
    if (k <= 0) return;
    target[k] = 0;
    if (target[0] != '/') return; /* pipes, sockets */
    /* strip " (deleted)" */
    point(call, AT_FDCWD, target);
}

#define REAL(name) static __typeof__(name) *real; if (!real) real = dlsym(RTLD_NEXT, #name)

int rename(const char *a, const char *b) { REAL(rename); init(); point("rename", AT_FDCWD, b); return real(a, b); }
int renameat(int ad, const char *a, int bd, const char *b) { REAL(renameat); init(); point("rename", bd, b); return real(ad, a, bd, b); }
int renameat2(int ad, const char *a, int bd, const char *b, unsigned int f) {
    static int (*real)(int, const char *, int, const char *, unsigned int);
    if (!real) real = dlsym(RTLD_NEXT, "renameat2");
    init(); point("rename", bd, b); return real(ad, a, bd, b, f);
}
int unlink(const char *p) { REAL(unlink); init(); point("unlink", AT_FDCWD, p); return real(p); }
int unlinkat(int d, const char *p, int f) { REAL(unlinkat); init(); point("unlink", d, p); return real(d, p, f); }
int mkdir(const char *p, mode_t m) { REAL(mkdir); init(); point("mkdir", AT_FDCWD, p); return real(p, m); }
int mkdirat(int d, const char *p, mode_t m) { REAL(mkdirat); init(); point("mkdir", d, p); return real(d, p, m); }
int link(const char *a, const char *b) { REAL(link); init(); point("link", AT_FDCWD, b); return real(a, b); }
int linkat(int ad, const char *a, int bd, const char *b, int f) { REAL(linkat); init(); point("link", bd, b); return real(ad, a, bd, b, f); }
int symlink(const char *a, const char *b) { REAL(symlink); init(); point("symlink", AT_FDCWD, b); return real(a, b); }
int truncate(const char *p, off_t l) { REAL(truncate); init(); point("truncate", AT_FDCWD, p); return real(p, l); }
int ftruncate(int fd, off_t l) { REAL(ftruncate); init(); { int w = count_writes; count_writes = 1; fdpoint("ftruncate", fd); count_writes = w; } return real(fd, l); }
int ftruncate64(int fd, off64_t l) {
    static int (*real)(int, off64_t);
    if (!real) real = dlsym(RTLD_NEXT, "ftruncate64");
    init(); { int w = count_writes; count_writes = 1; fdpoint("ftruncate", fd); count_writes = w; } return real(fd, l);
}

static int creating(int flags) { return (flags & O_CREAT) || (flags & O_TRUNC); }

int open(const char *p, int flags, ...) {
    static int (*real)(const char *, int, ...);
    if (!real) real = dlsym(RTLD_NEXT, "open");
    mode_t m = 0;
    if (flags & (O_CREAT | O_TMPFILE)) { va_list ap; va_start(ap, flags); m = va_arg(ap, mode_t); va_end(ap); }
    init(); if (creating(flags)) point("open-creat", AT_FDCWD, p);
    return real(p, flags, m);
}
int open64(const char *p, int flags, ...) {
    static int (*real)(const char *, int, ...);
    if (!real) real = dlsym(RTLD_NEXT, "open64");
    mode_t m = 0;
    if (flags & (O_CREAT | O_TMPFILE)) { va_list ap; va_start(ap, flags); m = va_arg(ap, mode_t); va_end(ap); }
    init(); if (creating(flags)) point("open-creat", AT_FDCWD, p);
    return real(p, flags, m);
}
int openat(int d, const char *p, int flags, ...) {
    static int (*real)(int, const char *, int, ...);
    if (!real) real = dlsym(RTLD_NEXT, "openat");
    mode_t m = 0;
    if (flags & (O_CREAT | O_TMPFILE)) { va_list ap; va_start(ap, flags); m = va_arg(ap, mode_t); va_end(ap); }
    init(); if (creating(flags)) point("open-creat", d, p);
    return real(d, p, flags, m);
}
int openat64(int d, const char *p, int flags, ...) {
    static int (*real)(int, const char *, int, ...);
    if (!real) real = dlsym(RTLD_NEXT, "openat64");
    mode_t m = 0;
    if (flags & (O_CREAT | O_TMPFILE)) { va_list ap; va_start(ap, flags); m = va_arg(ap, mode_t); va_end(ap); }
    init(); if (creating(flags)) point("open-creat", d, p);
    return real(d, p, flags, m);
}
int creat(const char *p, mode_t m) { REAL(creat); init(); point("open-creat", AT_FDCWD, p); return real(p, m); }

ssize_t write(int fd, const void *b, size_t n) { REAL(write); init(); fdpoint("write", fd); return real(fd, b, n); }
ssize_t pwrite(int fd, const void *b, size_t n, off_t o) { REAL(pwrite); init(); fdpoint("write", fd); return real(fd, b, n, o); }
ssize_t pwrite64(int fd, const void *b, size_t n, off64_t o) {
    static ssize_t (*real)(int, const void *, size_t, off64_t);
    if (!real) real = dlsym(RTLD_NEXT, "pwrite64");
    init(); fdpoint("write", fd); return real(fd, b, n, o);
}
ssize_t writev(int fd, const struct iovec *v, int c) { REAL(writev); init(); fdpoint("write", fd); return real(fd, v, c); }

/* $RV_SHIM_PROBE_DELAY_US=<us> : the log follower (process name "redo-log") sleeps that long before every non-blocking
 * lock attempt fcntl(F_SETLK) -- its "is the target still being built?" probe.  This widens the window between its last
 * read of a log file and the probe from a few instructions to milliseconds; it never makes an outcome wrong. */
static long probe_delay_us = -1;
static int is_follower = -1;
static void probe_delay(int cmd) {
    if (cmd != F_SETLK || active != 1 || busy) return;
    if (probe_delay_us < 0) {
        const char *d = getenv("RV_SHIM_PROBE_DELAY_US");
        probe_delay_us = d ? atol(d) : 0;
    }
    if (probe_delay_us <= 0) return;
    if (is_follower < 0) {
        char comm[32] = {0};
        int (*ropen)(const char *, int, ...) = dlsym(RTLD_NEXT, "open");
        ssize_t (*rread)(int, void *, size_t) = dlsym(RTLD_NEXT, "read");
        int fd = ropen("/proc/self/comm", O_RDONLY);
        if (fd >= 0) { rread(fd, comm, sizeof comm - 1); close(fd); }
        is_follower = strncmp(comm, "redo-log", 8) == 0;
    }
    if (is_follower) usleep((useconds_t)probe_delay_us);
}
int fcntl(int fd, int cmd, ...) {
    static int (*real)(int, int, ...);
    if (!real) real = dlsym(RTLD_NEXT, "fcntl");
    va_list ap; va_start(ap, cmd); void *arg = va_arg(ap, void *); va_end(ap);
    if (cmd == F_SETLK) { init(); probe_delay(cmd); }
    return real(fd, cmd, arg);
}
int fcntl64(int fd, int cmd, ...) {
    static int (*real)(int, int, ...);
    if (!real) real = dlsym(RTLD_NEXT, "fcntl64");
    if (!real) real = dlsym(RTLD_NEXT, "fcntl");
    va_list ap; va_start(ap, cmd); void *arg = va_arg(ap, void *); va_end(ap);
    if (cmd == F_SETLK) { init(); probe_delay(cmd); }
    return real(fd, cmd, arg);
}

#include <poll.h>
ssize_t read(int fd, void *b, size_t n) {
    REAL(read);
    init();
    if (active == 1 && race_fd >= 0 && fd == race_fd && !busy) {
        busy = 1;
        uint64_t k = __atomic_add_fetch(ctr + 1, 1, __ATOMIC_SEQ_CST);
        if (logfd >= 0) {
            char line[96];
            int len = snprintf(line, sizeof line, "r%llu %d tokread -\n", (unsigned long long)k, (int)getpid());
            ssize_t (*rwrite)(int, const void *, size_t) = dlsym(RTLD_NEXT, "write");
            if (len > 0) rwrite(logfd, line, (size_t)len);
        }
        if (race_at && k == race_at) {
            struct pollfd pf = {fd, POLLIN, 0};
            char c;
            if (poll(&pf, 1, 0) == 1 && (pf.revents & POLLIN) && real(fd, &c, 1) == 1 && race_out >= 0) {
                ssize_t (*rwrite)(int, const void *, size_t) = dlsym(RTLD_NEXT, "write");
                rwrite(race_out, &c, 1);
            }
        }
        busy = 0;
    }
    return real(fd, b, n);
}
