#![no_main]
//! C13, coverage-guided: possible_do_files against the reference candidate enumeration.
use libfuzzer_sys::fuzz_target;
use std::path::Path;

#[path = "../../inproc/src/reference.rs"]
#[allow(dead_code)]
mod reference;

fuzz_target!(|data: &[u8]| {
    let s = match std::str::from_utf8(data) {
        Ok(s) => s,
        Err(_) => return,
    };
    if s.contains('\0') || s.contains('\n') || s.len() > 300 {
        return;
    }
    // an absolute path; the spelling may contain //, /./ and x/../ -- possible_do_files cleans lexically
    let spelled = format!("/{}", s);
    let clean = reference::cleanname(&spelled);
    if clean == "/" {
        return;
    }
    let comps: Vec<&str> = clean[1..].split('/').collect();
    let (name, dirs) = comps.split_last().unwrap();
    if name.is_empty() || *name == ".." {
        return;
    }
    // a trailing slash / trailing "." names a directory: the callers never pass that
    if spelled.ends_with('/') || spelled.ends_with("/.") || spelled.ends_with("/..") {
        return;
    }
    let got: Vec<(String, String)> = redo::possible_do_files(Path::new(&spelled))
        .map(|d| (d.do_dir().to_string_lossy().into_owned(), d.do_file().to_string_lossy().into_owned()))
        .collect();
    let regular = !name.starts_with('.') && !name.ends_with('.') && !name.contains("..");
    if regular {
        let want = reference::do_candidates(dirs, name);
        assert_eq!(got, want, "candidates for {:?}", spelled);
    } else if let Some(p) = reference::weak_invariants(dirs, name, &got) {
        panic!("{} for {:?}: {:?}", p, spelled, got);
    }
});
