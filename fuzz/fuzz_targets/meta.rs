#![no_main]
//! C18, coverage-guided: Meta::parse never panics; whatever it accepts re-formats to a line that parses to an equal
//! record (fixed point), and a `done` record's status/name survive.
use libfuzzer_sys::fuzz_target;

fuzz_target!(|data: &[u8]| {
    let s = match std::str::from_utf8(data) {
        Ok(s) => s,
        Err(_) => return,
    };
    if s.contains('\n') {
        return; // one record is one line (the statement: "no newline")
    }
    let m = match redo::logs::Meta::parse(s) {
        Ok(m) => m,
        Err(_) => return,
    };
    let line = format!("{}", m);
    assert!(!line.contains('\n'), "formatted record has a newline: {:?}", line);
    let m2 = redo::logs::Meta::parse(&line).unwrap_or_else(|e| panic!("re-formatted {:?} does not parse: {}", line, e));
    assert_eq!(m2.kind(), m.kind(), "kind changed for {:?}", s);
    assert_eq!(m2.pid(), m.pid(), "pid changed for {:?}", s);
    assert_eq!(m2.text(), m.text(), "text changed for {:?}", s);
    let (a, b) = (m.timestamp(), m2.timestamp());
    assert!(
        (a - b).abs() <= 1e-4 * a.abs().max(1.0) || (a.is_nan() && b.is_nan()) || a == b,
        "timestamp changed: {} -> {} for {:?}",
        a,
        b,
        s
    );
    assert_eq!(m.done_text().is_some(), m2.done_text().is_some());
    if let (Some((rv, name)), Some((rv2, name2))) = (m.done_text(), m2.done_text()) {
        assert_eq!((rv, name), (rv2, name2));
    }
});
