#![no_main]
//! C15, coverage-guided: normpath against the independent cleanname reference; idempotence; shape invariants.
//! The oracle is inside the target: any disagreement aborts (libFuzzer saves the input).
use libfuzzer_sys::fuzz_target;
use std::path::Path;

#[path = "../../inproc/src/reference.rs"]
#[allow(dead_code)]
mod reference;

fuzz_target!(|data: &[u8]| {
    let s = match std::str::from_utf8(data) {
        Ok(s) => s,
        Err(_) => return,
    };
    if s.contains('\0') {
        return;
    }
    let got = redo::normpath(Path::new(s)).to_string_lossy().into_owned();
    let want = reference::cleanname(s);
    assert_eq!(got, want, "normpath({:?})", s);
    let again = redo::normpath(Path::new(&got)).to_string_lossy().into_owned();
    assert_eq!(again, got, "not idempotent for {:?}", s);
    assert!(!got.contains("//") || got == "/", "// in {:?}", got);
    assert_eq!(s.starts_with('/'), got.starts_with('/'), "rootedness {:?} -> {:?}", s, got);
    if got != "." {
        assert!(!got.split('/').any(|c| c == "."), ". component in {:?}", got);
    }
    let comps: Vec<&str> = got.split('/').collect();
    for w in comps.windows(2) {
        assert!(!(w[1] == ".." && w[0] != ".." && !w[0].is_empty()), "x/.. left in {:?}", got);
    }
});
