#!/bin/sh
# usage: tools_wt_check.sh <worktree-of-/repo> <seed> <check> [check...]
# EXPLORATORY ONLY (never evidence): runs checks from a scratch copy of /verif against a scratch worktree of /repo, so that
# /repo stays untouched and several seeded changes can be looked at while other checks run.  The confirming run of a seeded
# change is always tools_seeded.py (git -C /repo apply; ./check; git -C /repo checkout -- .).
wt=$1; seed=$2; shift; shift
here=$(cd "$(dirname "$0")" && pwd)
name=$(basename "$wt")
vc=/tmp/vc/$name
mkdir -p /tmp/vc
rm -rf "$vc"
rsync -a --exclude target --exclude .git --exclude 'replays/*/fail-*' --exclude __pycache__ "$here/" "$vc/"
mkdir -p "$vc/target"
cp -r "$here/target/sut" "$vc/target/sut"
cp -r "$here/target/inproc" "$vc/target/inproc" 2>/dev/null
case " $* " in *C13*|*C15*|*C18*) cp -r "$here/target/fuzz" "$vc/target/fuzz";; esac
cp "$here/shim/"*.so "$vc/shim/" 2>/dev/null
sed -i "s#path = \"/repo\"#path = \"$wt\"#" "$vc/inproc/Cargo.toml" "$vc/fuzz/Cargo.toml"
cd "$vc" || exit 2
for c in "$@"; do
  RV_REPO=$wt VERIF_SEED=$seed ./check "$c" quick > "$vc/$c.log" 2>&1
  echo "$name $c seed=$seed exit=$? $(grep -c '^VIOLATION' "$vc/$c.log") viol; $(grep -m2 'clause=' "$vc/$c.log" | cut -c1-220 | tr '\n' ' ') $(tail -1 "$vc/$c.log")"
done
