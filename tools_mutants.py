#!/usr/bin/env python3
"""Sensitivity test: apply small hand-written mutants to /repo's working tree one at a time, run the quick tier of the
check that should notice, and restore the tree (git checkout).  Not part of any registered check.

usage: tools_mutants.py [name ...]      (no names = all)
Writes mutants_report.json.
"""
import json
import os
import subprocess
import sys
import time

REPO = "/repo"
HERE = os.path.dirname(os.path.abspath(__file__))

MUTANTS = [
    # name, file, old, new, [properties expected to go red]
    ("deps-skip-stamp-compare-for-sources", "src/deps.rs",
     "            if oldstamp != &newstamp {", "            if oldstamp != &newstamp && f.is_generated() {", ["C01", "C02"]),
    ("deps-changed-runid-ge", "src/deps.rs",
     "Some(changed_runid) if changed_runid > max_changed => {", "Some(changed_runid) if changed_runid >= max_changed + 1000000 => {",
     ["C01", "C02"]),
    ("builder-no-dofile-dep", "src/paths.rs",
     "            f.add_dep(ptx, DepMode::Modified, &do_path)?;\n            return Ok(Some(do_file));",
     "            return Ok(Some(do_file));", ["C01", "C02", "C13"]),
    ("paths-no-created-deps", "src/paths.rs",
     "            f.add_dep(ptx, DepMode::Created, &do_path)?;", "", ["C02", "C13"]),
    ("zap-deps2-noop", "src/state.rs",
     '            "delete from Deps where target=? and delete_me=1",', '            "delete from Deps where target=? and delete_me=2",',
     ["C02"]),
    ("stamp-swap-branches", "src/bin/redo/stamp.rs",
     "    let changed = csum != f.checksum();", "    let changed = csum == f.checksum();", ["C03", "C01"]),
    ("record-always-set-changed", "src/builder.rs",
     "            if sf.is_checked(ptx.state().env()) || sf.is_changed(ptx.state().env()) {",
     "            if false && (sf.is_checked(ptx.state().env()) || sf.is_changed(ptx.state().env())) {", ["C03"]),
    ("needtargets-as-clean", "src/builder.rs",
     "                    self.start_deps_unlocked(ptx, server, targets)",
     "                    { let _ = targets; Ok(Box::pin(future::ready(EXIT_SUCCESS))) }", ["C01", "C03"]),
    ("rename-before-status-check", "src/builder.rs",
     "        if rv == EXIT_SUCCESS {\n            // FIXME: race condition here",
     "        if rv == EXIT_SUCCESS || (rv > 0 && rv < 100 && st2.is_some()) {\n            // FIXME: race condition here", ["C04"]),
    ("accept-both-outputs", "src/builder.rs",
     "            rv = EXIT_MULTIPLE_OUTPUTS;", "            rv = rv;", ["C04"]),
    ("no-direct-modify-detect", "src/builder.rs",
     "            rv = EXIT_TARGET_DIRECTLY_MODIFIED;", "            rv = rv;", ["C04"]),
    ("no-unlink-tmp-on-failure", "src/builder.rs",
     '            helpers::unlink(tmp_name).expect("failed to remove temporary output file");', "", ["C04"]),
    ("stdout-copied-straight-into-target", "src/builder.rs",
     "                match File::create(tmp_name) {", "                match File::create(t.as_path()) {", ["C04"]),
    ("drop-set-failed", "src/builder.rs",
     "            if let Err(e) = sf.set_failed(ptx.state().env()) {", "            if let Err(e) = Ok::<(), RedoError>(()) {", ["C05"]),
    ("ignore-failed-runid", "src/deps.rs",
     "    if f.failed_runid.is_some() {", "    if false {", ["C05", "C01"]),
    ("keep-going-always", "src/builder.rs",
     "            if errored && !ps_ref.borrow().env().keep_going {\n                break;\n            }\n            // TODO(soon): state.check_sane.",
     "            if false && errored {\n                break;\n            }\n            // TODO(soon): state.check_sane.", ["C05"]),
    ("errors-exit-zero", "src/bin/redo/ifchange.rs",
     "        build_result\n            .map_err(|e| e.into())", "        build_result.or(Ok(()))\n            .map_err(|e: redo::RedoError| e.into())", ["C05"]),
    ("no-refresh-after-lock", "src/builder.rs",
     "                    f.refresh(&mut ptx)?;", "", ["C06", "C07"]),
    ("unlock-before-record", "src/builder.rs",
     "            let _lock = lock; // ensure we hold the lock until after state has been recorded\n            let mut rv = job.await;",
     "            let mut rv = job.await;\n            drop(lock);", ["C06"]),
    ("no-seen-dedup", "src/builder.rs",
     "            if seen.contains(t) {\n                continue;\n            }", "", ["C07", "C15"]),
    ("create-two-tokens-on-exit", "src/jobserver.rs",
     "                                state.create_tokens(1);\n                                if state.has_token() {",
     "                                state.create_tokens(2);\n                                if state.has_token() {", ["C08", "C09"]),
    ("skip-cheat-compensation", "src/jobserver.rs",
     "                            Ok(Some(1)) => {\n                                // someone exited with _cheats > 0",
     "                            Ok(Some(1)) => {\n                                state.create_tokens(1);\n                                // someone exited with _cheats > 0", ["C08"]),
    ("revert-d6", "src/jobserver.rs",
     "                            if state.my_tokens >= 1 {\n                                // A child that exited",
     "                            if false {\n                                // A child that exited", ["C09"]),
    ("cycles-check-noop", "src/cycles.rs", None, None, ["C12"]),
    ("default-do-shortest-first", "src/paths.rs", None, None, ["C13"]),
    ("arg2-equals-arg1", "src/builder.rs",
     "            arg2.push(&df.base_name);\n            arg2", "            arg2.push(&df.base_name);\n            arg2.push(&df.ext);\n            arg2", ["C13"]),
    ("created-dep-inverted", "src/deps.rs",
     "                if ptx.state().env().base().join(f2.name()).exists() {", "                if !ptx.state().env().base().join(f2.name()).exists() {", ["C14", "C02"]),
    ("always-no-restamp", "src/state.rs",
     "        if f.name.as_str() == ALWAYS {\n            if let Some(env_runid) = runid {", "        if false {\n            if let Some(env_runid) = runid {", ["C14", "C02"]),
    ("ifcreate-existing-ok", "src/bin/redo/ifcreate.rs",
     '            return Err(anyhow!("{:?} already exists", t));', "", ["C14"]),
    ("normpath-no-dotdot-guard", "src/helpers.rs", None, None, ["C15"]),
    ("busy-timeout-zero", "src/state.rs",
     "    db.busy_timeout(Duration::from_secs(60))?;", "    db.busy_timeout(Duration::from_millis(0))?;", ["C16"]),
    ("revert-d2", "src/state.rs",
     ".transaction_with_behavior(TransactionBehavior::Immediate)", ".transaction_with_behavior(TransactionBehavior::Deferred)", ["C16"]),
    ("ood-persists-checked", "src/bin/redo/ood.rs",
     "    let mut ptx = ProcessTransaction::new(&mut ps, TransactionBehavior::Deferred)?;",
     "    let mut ptx = ProcessTransaction::new(&mut ps, TransactionBehavior::Immediate)?;\n    ptx.set_drop_behavior(rusqlite::DropBehavior::Commit);", ["C17"]),
    ("is-source-drops-override", "src/state.rs",
     "            && !self.is_override\n            && self.stamp.as_ref() == Some(&newstamp)", "            && self.stamp.as_ref() == Some(&newstamp)", ["C17", "C11"]),
    ("no-override-detect", "src/builder.rs",
     "            && !newstamp.is_missing()\n            && (sf.is_override", "            && !newstamp.is_missing()\n            && false\n            && (sf.is_override", ["C11"]),
    ("existing-nongenerated-not-static", "src/builder.rs",
     "            && (sf.is_override || !sf.is_generated())\n        {", "            && (sf.is_override)\n        {", ["C11"]),
    ("meta-sep-changed", "src/logs.rs",
     '    const SEP: &\'static str = "@@ ";', '    const SEP: &\'static str = "@ ";', ["C18"]),
    ("log-line-head-dropped", "src/bin/redo/log.rs",
     "                line_head.push_str(&line);\n                continue;", "                continue;", ["C18"]),
    ("revert-d11", "src/bin/redo/stamp.rs", "        f.mark_unfinished();", "", ["C10"]),
    ("no-unlink-stale-tmp-at-start", "src/builder.rs",
     "        helpers::unlink(&tmp_name).map_err(RedoError::opaque_error)?;\n        let out_file", "        let out_file", ["C10", "C04"]),
]


def sh(cmd, **kw):
    return subprocess.run(cmd, shell=True, stdout=subprocess.PIPE, stderr=subprocess.STDOUT, text=True, **kw)


def apply(m):
    name, path, old, new, props = m
    full = os.path.join(REPO, path)
    with open(full) as f:
        s = f.read()
    if old is None:
        return special(name, full, s)
    if s.count(old) < 1:
        return "pattern not found"
    s2 = s.replace(old, new, 1)
    with open(full, "w") as f:
        f.write(s2)
    return None


def special(name, full, s):
    if name == "cycles-check-noop":
        old = "pub(crate) fn check(fid: String) -> Result<(), RedoError> {"
        if old not in s:
            old = [l for l in s.split("\n") if "fn check" in l][0]
        s2 = s.replace(old, old + "\n    if true { let _ = &fid; return Ok(()); }", 1)
    elif name == "default-do-shortest-first":
        old = "            l: Some(filename.match_indices('.')),"
        if old not in s:
            return "pattern not found"
        # iterate dots from the right: shortest extension first
        s2 = s.replace("    l: Option<MatchIndices<'a, char>>,", "    l: Option<std::iter::Rev<MatchIndices<'a, char>>>,")
        s2 = s2.replace(old, "            l: Some(filename.match_indices('.').rev()),")
    elif name == "normpath-no-dotdot-guard":
        old = "            if out.w > dotdot {"
        if old not in s:
            return "pattern not found"
        s2 = s.replace(old, "            if out.w > 0 {", 1)
    else:
        return "unknown special"
    with open(full, "w") as f:
        f.write(s2)
    return None


def main():
    want = set(sys.argv[1:])
    report = []
    assert sh("git -C %s status --porcelain" % REPO).stdout.strip() == "", "/repo not clean"
    for m in MUTANTS:
        name, path, old, new, props = m
        if want and name not in want:
            continue
        entry = {"mutant": name, "file": path, "expected": props, "results": {}}
        try:
            err = apply(m)
            if err:
                entry["error"] = err
                report.append(entry)
                print(name, "SKIP", err)
                continue
            b = sh("cd %s && CARGO_TARGET_DIR=%s/target/sut cargo build --offline --bin redo 2>&1 | tail -3" % (REPO, HERE))
            if "error" in b.stdout and "Finished" not in b.stdout:
                entry["error"] = "does not compile: " + b.stdout[-300:]
                report.append(entry)
                print(name, "NOCOMPILE")
                continue
            for p in props:
                t0 = time.time()
                r = sh("cd %s && timeout 900 ./check %s quick" % (HERE, p))
                red = "VIOLATION property=%s" % p in r.stdout
                clause = [l.strip() for l in r.stdout.split("\n") if l.strip().startswith("clause=")][:1]
                entry["results"][p] = {"exit": r.returncode, "red": red, "s": round(time.time() - t0, 1),
                                       "clause": clause}
                print(name, p, "RED" if red else "green(exit %d)" % r.returncode, clause, flush=True)
                # remove fail- replays produced against the mutant
                sh("rm -f %s/replays/%s/fail-*.json" % (HERE, p))
        finally:
            sh("git -C %s checkout -- ." % REPO)
        report.append(entry)
    with open(os.path.join(HERE, "mutants_report.json"), "w") as f:
        json.dump(report, f, indent=1)
    sh("cd %s && CARGO_TARGET_DIR=%s/target/sut cargo build --offline --bin redo" % (REPO, HERE))


if __name__ == "__main__":
    main()
