#!/usr/bin/env python3
"""Run the registered checks against one seeded change: apply seeded/<id>/patch.diff to /repo, rebuild, run the
demonstration and the check(s), undo.  usage: tools_seeded.py <id> [check ...]"""
import json
import os
import subprocess
import sys
import time

HERE = os.path.dirname(os.path.abspath(__file__))


def sh(cmd, timeout=None):
    return subprocess.run(cmd, shell=True, stdout=subprocess.PIPE, stderr=subprocess.STDOUT, text=True, timeout=timeout)


def main():
    sid = sys.argv[1]
    checks = sys.argv[2:] or [sid[:3]]
    d = os.path.join(HERE, "seeded", sid)
    assert sh("git -C /repo status --porcelain").stdout.strip() == "", "/repo not clean"
    demo = [f for f in os.listdir(d) if f.startswith("demo.")][0]
    runner = "bash" if demo.endswith(".sh") else "python3"
    res = {"id": sid, "checks": {}}
    # demo on the unmodified tree
    sh("cd %s && python3-vt -c 'from rv import sut; sut.build()'" % HERE)
    r0 = sh("%s %s/%s %s/target/sut/bin" % (runner, d, demo, HERE), timeout=600)
    res["demo_orig_exit"] = r0.returncode
    a = sh("git -C /repo apply %s/patch.diff" % d)
    if a.returncode != 0:
        print("patch does not apply:", a.stdout)
        return 2
    try:
        b = sh("cd %s && python3-vt -c 'from rv import sut; sut.build()'" % HERE)
        if b.returncode != 0:
            print("mutant does not build", b.stdout[-500:])
            return 2
        r1 = sh("%s %s/%s %s/target/sut/bin" % (runner, d, demo, HERE), timeout=600)
        res["demo_mut_exit"] = r1.returncode
        res["demo_mut_tail"] = r1.stdout[-400:]
        for c in checks:
            t0 = time.time()
            r = sh("cd %s && ./check %s quick" % (HERE, c), timeout=3000)
            red = ("VIOLATION property=%s" % c) in r.stdout
            clause = [l.strip()[:200] for l in r.stdout.split("\n") if l.strip().startswith("clause=")][:2]
            foreign = {}
            try:
                with open(os.path.join(HERE, "evidence", c + ".json")) as f:
                    foreign = json.load(f)["coverage"].get("other_property_symptoms_seen") or {}
            except (OSError, ValueError, KeyError):
                pass
            res["checks"][c] = {"exit": r.returncode, "red": red, "clause": clause, "s": round(time.time() - t0, 1),
                                "symptoms_attributed_to_other_properties": foreign}
            keep = os.path.join(d, "found-by-%s" % c)
            if red:
                # keep one replay produced against the mutant as documentation
                fl = sorted(f for f in os.listdir(os.path.join(HERE, "replays", c)) if f.startswith("fail-"))
                if fl:
                    sh("cp %s/replays/%s/%s %s.json" % (HERE, c, fl[0], keep))
            sh("rm -f %s/replays/%s/fail-*.json" % (HERE, c))
    finally:
        sh("git -C /repo checkout -- .")
        sh("cd %s && python3-vt -c 'from rv import sut; sut.build()'" % HERE)
    print(json.dumps(res, indent=1))
    with open(os.path.join(d, "run.json"), "w") as f:
        json.dump(res, f, indent=1)


if __name__ == "__main__":
    sys.exit(main())
